#!/usr/bin/env python3
"""Prints the prompt given to a mutant-writing sub-agent for one property (only the property text + its worktree)."""
import json, sys
pid = sys.argv[1]
wt = sys.argv[2] if len(sys.argv) > 2 else "/tmp/wt-" + pid
for l in open("/verif/properties.jsonl"):
    p = json.loads(l)
    if p["id"] == pid:
        break
import glob, os
tried = []
for d in sorted(glob.glob("/verif/seeded/%s-*" % pid)):
    try:
        tried.append("- " + json.load(open(os.path.join(d, "meta.json")))["summary"][:300])
    except Exception:
        pass
tried_text = ""
if tried:
    tried_text = ("\nIdeas that were ALREADY used in an earlier round for this property - do NOT repeat them or close variants; pick different code sites / mechanisms:\n"
                  + "\n".join(tried) + "\n")
hint = os.environ.get("HINT", "")
if hint:
    hint = "\nFor this round: " + hint + "\n"
print(f"""You are helping to stress-test an (unseen) verification framework for the Go library hashicorp/go-slug
(module github.com/hashicorp/go-slug): packs/unpacks Terraform 'slug' tar.gz archives, parses module source addresses,
builds multi-package source bundles.

Your scratch git worktree of the library is {wt} . Work ONLY inside it. Never read or modify /repo or /verif.
There is no network. In every shell call first run:
  export GOFLAGS=-mod=mod GOPROXY=off GOSUMDB=off GOTOOLCHAIN=local
The existing test-suite is:  cd {wt} && go test -vet=off -count=1 ./...

PROPERTY {p['id']} — {p['title']}
Statement: {p['statement']}
Quantified over: {p['quantifier']['text']}
Relevant files: {', '.join(p['anchors']['files'])}

{tried_text}{hint}
TASK: write TWO different, independent, realistic changes (call them m1 and m2, at different code sites or with different
mechanisms) to the library's NON-test source, each of which BREAKS this property while
  (a) the module still compiles,
  (b) the whole existing test-suite still passes, unedited, and
  (c) the breakage needs something specific to manifest — an unusual input, a multi-step sequence of operations, a particular
      ordering/interleaving, a fault at a particular point, or two cooperating sites that each look fine alone — i.e. NOT
      something ordinary use or a trivial smoke test would expose at once.
Each change should look like a plausible regression a developer could introduce (refactoring slip, off-by-one, wrong comparison,
dropped or weakened check, wrong cache key, wrong order of operations, ...), be small (roughly < 30 changed lines), must not
edit tests/testdata, and must not add exported API. Prefer subtle over blatant.

For each change mK (K=1,2) deliver under {wt}/_out/mK/ :
  - patch.diff : `git diff` of the library change only (applies with `git apply` on a clean checkout of HEAD)
  - demo_test.go : a self-contained Go test (say in its first comment line which package directory it must be copied to, e.g.
    "// place in: sourcebundle/") that FAILS with the change applied and PASSES on the unchanged code; it demonstrates the
    property violation at the public-API level where possible (an internal-package test is acceptable if needed)
  - meta.json : {{"property": "{p['id']}", "summary": "...", "needs_to_manifest": "...", "files_changed": [...], "how_verified": "commands you ran and what you saw"}}
You must verify all of this yourself: with the patch applied the suite passes and the demo fails; with the patch reverted the demo
passes. Finally leave the worktree clean of tracked changes (git checkout -- . ; remove copied demo tests), keeping only the
untracked _out/ directory. Reply with a 5-line summary of the two changes. If, while reading, you notice that the UNMODIFIED
code already violates this property for some input or sequence, add a "Side finding:" paragraph with a minimal reproducer
(verify it by running it) - otherwise do not mention side findings.""")
