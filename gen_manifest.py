#!/usr/bin/env python3
"""Regenerates MANIFEST.json from jobs.py + manifest_meta.py (keeps the manifest consistent with what the driver runs)."""
import json, os, sys
here = os.path.dirname(os.path.abspath(__file__))
sys.path.insert(0, here)
from jobs import PROPS
from manifest_meta import META, NOT_APPLICABLE, HOOK_COMMITS

all_ids = [json.loads(l)["id"] for l in open(os.path.join(here, "properties.jsonl"))]
checks = []
for pid in all_ids:
    if pid not in PROPS or pid not in META:
        continue
    m = META[pid]
    checks.append({
        "property_id": pid,
        "quick_cmd": "./check %s quick" % pid,
        "thorough_cmd": "./check %s thorough" % pid,
        "evidence_file": "/verif/evidence/%s.json" % pid,
        "replay_cmd_template": "./check %s --replay {path}" % pid,
        "engine": "vcheck",
        "level_claimed": {"category": PROPS[pid]["level"], "text": m["text"], "design_ref": "DESIGN.md §5 " + pid},
        "level_note": m["note"],
        "technique": m["technique"],
    })
na = [{"property_id": pid, "reason": NOT_APPLICABLE.get(pid, "check not built yet in this round; planned in DESIGN.md §5")}
      for pid in all_ids if pid not in {c["property_id"] for c in checks}]
man = {
    "version": 1,
    "setup_cmd": "./setup.sh",
    "hooks": {
        "guard": "verif",
        "enable": "no hooks are needed: every check drives exported go-slug APIs from the harness module (replace => /repo); a build tag 'verif' is reserved",
        "baseline_off_cmd": "cd /repo && go test -vet=off -count=1 ./...",
        "source_commits": HOOK_COMMITS,
        "add_only": True,
    },
    "engines": [{
        "name": "vcheck",
        "path": "/verif/vcheck.py",
        "serves_properties": [c["property_id"] for c in checks],
        "kind_free_text": "property-based testing (pgregory.net/rapid v1.3.0), exhaustive enumeration of small finite sub-domains, native go fuzzing in the thorough tier; explicit oracles (reference models, round trips, metamorphic relations, history invariants); sharded test binaries rebuilt from /repo's working tree on every run",
    }],
    "checks": checks,
    "not_applicable": [],
    "notes": "All checks: ./check <ID> <quick|thorough> [--replay <file>]; exit 0 held / 1 VIOLATION / 2 inconclusive (infrastructure). Known findings and fixed defects: /verif/known_findings.txt.",
}
if na:
    man["not_applicable"] = na
json.dump(man, open(os.path.join(here, "MANIFEST.json"), "w"), indent=1)
print("claimed:", [c["property_id"] for c in checks])
