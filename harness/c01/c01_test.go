// C01 — Unpack never touches anything outside the destination directory.
// Oracle: snapshot of an arena enclosing dst, before vs. after. DESIGN.md §5 C01.
package c01

import (
	"bytes"
	"fmt"
	"os"
	"path/filepath"
	"strings"
	"testing"

	slug "github.com/hashicorp/go-slug"
	"pgregory.net/rapid"

	"verif/lib/ev"
	"verif/lib/fsx"
	"verif/lib/tarx"
	"verif/lib/ugen"
)

func TestMain(m *testing.M) { ev.Main(m, "C01") }

var subContain = ev.Register("containment", checkContainment)

func unpack(c ugen.Case, a *ugen.Arena) (err error, panicked any) {
	r, _, berr := c.Stream(a.Vars)
	if berr != nil {
		return berr, "harness-build"
	}
	defer func() {
		if p := recover(); p != nil {
			panicked = p
		}
	}()
	var opts []slug.PackerOption
	for _, al := range c.Allow {
		opts = append(opts, slug.AllowSymlinkTarget(fsx.Subst(al, a.Vars)))
	}
	p, perr := slug.NewPacker(opts...)
	if perr != nil {
		return perr, "harness-packer"
	}
	defer a.Enter()()
	return p.Unpack(r, a.Spelled), nil
}

func nontrivial(c ugen.Case) (bool, string) {
	if c.Fault.Kind != "none" {
		return true, "faulted-stream"
	}
	linkNames := map[string]bool{}
	for _, e := range c.Entries {
		if strings.Contains(e.Name, "..") || strings.Contains(e.Name, "{R}") || strings.Contains(e.Name, "{DST}") {
			return true, "name-leaves-dst-lexically"
		}
		if e.Type == "symlink" {
			if strings.Contains(e.Link, "..") || strings.HasPrefix(e.Link, "/") || strings.HasPrefix(e.Link, "{") {
				return true, "link-target-climbs-or-absolute"
			}
			linkNames[strings.Trim(filepath.Clean("/"+e.Name), "/")] = true
		} else {
			n := strings.Trim(filepath.Clean("/"+e.Name), "/")
			for l := range linkNames {
				if n == l || strings.HasPrefix(n, l+"/") {
					return true, "entry-at-or-below-earlier-link"
				}
			}
		}
	}
	return false, ""
}

// maskHardLinked drops the differences that replacing a name inside dst
// necessarily causes on a file which has another name outside: its link count
// and change time.
func maskHardLinked(d []string, files []string) []string {
	var keep []string
	for _, x := range d {
		masked := false
		for _, f := range files {
			if strings.HasPrefix(x, f+": ctime") || strings.HasPrefix(x, f+": nlink") {
				masked = true
			}
		}
		if !masked {
			keep = append(keep, x)
		}
	}
	return keep
}

func checkContainment(c ugen.Case) error {
	a, err := ugen.NewArena(c)
	if err != nil {
		return fmt.Errorf("harness: arena: %v", err)
	}
	defer a.Close()
	if ok, why := nontrivial(c); ok {
		ev.NonTrivial(c, why)
	}
	before, err := a.SnapshotOutside()
	if err != nil {
		return fmt.Errorf("harness: snapshot: %v", err)
	}
	uerr, panicked := unpack(c, a)
	if s, ok := panicked.(string); ok && strings.HasPrefix(s, "harness-") {
		ev.Label("archive-not-buildable")
		return nil
	}
	after, err := a.SnapshotOutside()
	if err != nil {
		return fmt.Errorf("harness: snapshot after: %v", err)
	}
	ev.LabelIf(uerr == nil, "unpack-ok")
	ev.LabelIf(uerr != nil, "unpack-error")
	d := fsx.Diff(before, after, fsx.AllFields)
	if c.Spelling == "absent" {
		// creating the destination is an entry made in its parent directory: that directory's own times change
		var keep []string
		for _, x := range d {
			if strings.HasPrefix(x, "l1/l2/l3: mtime") || strings.HasPrefix(x, "l1/l2/l3: ctime") {
				continue
			}
			keep = append(keep, x)
		}
		d = keep
	}
	if hl := c.PreHardLinks(); len(hl) > 0 {
		ev.Label("dst-holds-hard-links-to-outside-files")
		d = maskHardLinked(d, hl)
	}
	if len(d) > 0 {
		if len(d) > 6 {
			d = d[:6]
		}
		return fmt.Errorf("Unpack (returned %v) changed the arena outside dst: %s", uerr, strings.Join(d, "; "))
	}
	if panicked != nil {
		if ev.IsKnown("c19-unpack-panic") {
			ev.Excluded("c19-unpack-panic")
			return nil
		}
		return fmt.Errorf("Unpack panicked: %v", panicked)
	}
	return nil
}

// ---------------------------------------------------------------------------
// several Unpack calls into the same destination path: nothing a call learnt
// about the destination may be trusted by the next one.

var subSequence = ev.Register("sequence", checkSequence)

func checkSequence(s ugen.SeqCase) error {
	a, err := ugen.NewArena(s.First)
	if err != nil {
		return fmt.Errorf("harness: arena: %v", err)
	}
	defer a.Close()
	var shared *slug.Packer
	if s.SamePacker {
		var opts []slug.PackerOption
		for _, al := range s.First.Allow {
			opts = append(opts, slug.AllowSymlinkTarget(fsx.Subst(al, a.Vars)))
		}
		shared, err = slug.NewPacker(opts...)
		if err != nil {
			return fmt.Errorf("harness: %v", err)
		}
	}
	dst1, spelled1 := a.Dst, a.Spelled
	for i := 0; i <= len(s.More); i++ {
		c := s.AsCase(i)
		rel := "l1/l2/l3/dst"
		a.Dst, a.Spelled = dst1, spelled1
		if i > 0 && s.More[i-1].OtherDst {
			// the other destination: what the earlier calls unpacked now lies outside
			rel = ugen.Dst2Rel
			a.Dst = filepath.Join(a.R, filepath.FromSlash(rel))
			a.Spelled = a.Dst
			ev.Label("other-destination")
		}
		cwd1 := a.Cwd
		moved := i > 0 && s.More[i-1].MovedCwd && s.First.Spelling == "rel-name"
		if moved {
			// the same text "dst", read from another working directory: it names l1/l2/dst, which Unpack creates
			rel = ugen.MovedRel
			a.Dst = filepath.Join(a.R, filepath.FromSlash(rel))
			a.Spelled, a.Cwd = "dst", filepath.Dir(a.Dst)
			ev.Label("working-directory-moved")
		}
		if i > 0 && s.More[i-1].Wipe {
			a.Wipe()
			ev.Label("wiped-between")
		}
		before, err := a.SnapshotOutsideOf(rel)
		if err != nil {
			return fmt.Errorf("harness: snapshot: %v", err)
		}
		var uerr error
		var panicked any
		if shared != nil {
			r, _, berr := c.Stream(a.Vars)
			if berr != nil {
				ev.Label("archive-not-buildable")
				return nil
			}
			func() {
				defer func() { panicked = recover() }()
				defer a.Enter()()
				uerr = shared.Unpack(r, a.Spelled)
			}()
		} else {
			uerr, panicked = unpack(c, a)
		}
		if str, ok := panicked.(string); ok && strings.HasPrefix(str, "harness-") {
			ev.Label("archive-not-buildable")
			return nil
		}
		after, err := a.SnapshotOutsideOf(rel)
		if err != nil {
			return fmt.Errorf("harness: snapshot after: %v", err)
		}
		d := fsx.Diff(before, after, fsx.AllFields)
		if hl := s.First.PreHardLinks(); len(hl) > 0 {
			d = maskHardLinked(d, hl)
		}
		if moved {
			// creating the destination is an entry made in its parent: that directory's own times change
			var keep []string
			for _, x := range d {
				if strings.HasPrefix(x, "l1/l2: mtime") || strings.HasPrefix(x, "l1/l2: ctime") {
					continue
				}
				keep = append(keep, x)
			}
			d = keep
			a.Cwd = cwd1
		}
		if len(d) > 0 {
			if len(d) > 6 {
				d = d[:6]
			}
			return fmt.Errorf("Unpack number %d of a sequence (returned %v) changed the arena outside its destination %s: %s", i+1, uerr, rel, strings.Join(d, "; "))
		}
		if panicked != nil {
			return fmt.Errorf("Unpack number %d panicked: %v", i+1, panicked)
		}
	}
	ev.NonTrivial(s, "several-unpacks-one-destination")
	return nil
}

func TestPropSequence(t *testing.T) {
	ev.Check(t, subSequence, ugen.GenSeq)
}

func TestPropContainment(t *testing.T) {
	ev.Check(t, subContain, func(t *rapid.T) ugen.Case {
		return ugen.GenCase(t, 35, 12, true, true)
	})
}

// FuzzUnpackContainment: coverage-guided bytes -> (entries) through rapid's
// byte-driven bit stream, same oracle.
func FuzzUnpackContainment(f *testing.F) {
	f.Add([]byte{})
	f.Add(bytes.Repeat([]byte{0x01, 0x00, 0x00, 0x00, 0x00, 0x00, 0x00, 0x00}, 64))
	f.Add(bytes.Repeat([]byte{0xff, 0x7f, 0x03, 0x00, 0x41, 0x00, 0x00, 0x10}, 64))
	f.Fuzz(rapid.MakeFuzz(func(t *rapid.T) {
		c := ugen.GenCase(t, 35, 12, true, true)
		if err := subContain.Run(c); err != nil {
			ev.FuzzFail("containment", c, err)
			t.Fatalf("%v", err)
		}
	}))
}

func TestReplay(t *testing.T) { ev.Replay(t) }
func TestKnown(t *testing.T)  { ev.KnownFindings(t) }

var _ = os.Getenv
var _ = tarx.Gzip
