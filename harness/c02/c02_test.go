// C02 — Pack followed by Unpack reproduces the source tree. DESIGN.md §5 C02.
package c02

import (
	"fmt"
	"os"
	"path"
	"path/filepath"
	"sort"
	"strings"
	"testing"
	"time"

	"pgregory.net/rapid"

	"verif/lib/ev"
	"verif/lib/fsx"
	"verif/lib/pk"
	"verif/lib/refignore"
	"verif/lib/tgen"
)

func TestMain(m *testing.M) { ev.Main(m, "C02") }

type Case struct {
	Tree  fsx.Tree `json:"tree"`
	Opts  pk.Opts  `json:"opts"`
	Rules *string  `json:"rules,omitempty"` // content of .terraformignore, nil = no file
	// how the (absolute) destination is named: "" directly | "parentlink" below a symlinked parent | "dstlink" is itself a symlink
	DstVia string `json:"dst_via,omitempty"`
	// the source directory is named below a symlinked parent directory
	SrcViaLink bool `json:"src_via_link,omitempty"`
}

var subRound = ev.Register("roundtrip", checkRoundTrip)

func checkRoundTrip(c Case) error {
	r, cleanup := fsx.Scratch("c02-")
	defer cleanup()
	src := filepath.Join(r, "src")
	dst := filepath.Join(r, "dst")
	tree := c.Tree
	if c.Rules != nil {
		tree = append(fsx.Tree{{Path: ".terraformignore", Kind: "file", Content: *c.Rules, Mode: 0644, Sec: 1500000000}}, tree...)
	}
	vars := map[string]string{"R": r}
	if err := fsx.Materialise(src, fsx.RawNames(tree), vars); err != nil {
		if os.Getuid() != 0 {
			ev.Label("tree-not-materialisable-unprivileged")
			return nil
		}
		return fmt.Errorf("harness: materialise: %v", err)
	}
	if err := os.Mkdir(dst, 0755); err != nil {
		return fmt.Errorf("harness: %v", err)
	}
	f := tgen.Describe(tree)
	switch {
	case f.EmptyDir:
		ev.NonTrivial(c, "empty-dir")
	case f.Link:
		ev.NonTrivial(c, "link")
	case f.Special:
		ev.NonTrivial(c, "special-file")
	case f.LongOrNonASCII:
		ev.NonTrivial(c, "long-or-non-ascii-name")
	case f.OddMode:
		ev.NonTrivial(c, "odd-mode")
	case f.FracTime:
		ev.NonTrivial(c, "fractional-mtime")
	}
	before, err := fsx.Snapshot(src, nil)
	if err != nil {
		return fmt.Errorf("harness: snapshot: %v", err)
	}
	srcArg := src
	if c.SrcViaLink {
		os.Symlink(".", filepath.Join(r, "viasrc"))
		srcArg = filepath.Join(r, "viasrc", "src")
	}
	data, _, perr, panicked := pk.PackBytes(c.Opts, vars, srcArg)
	if panicked != nil {
		return fmt.Errorf("Pack panicked: %v", panicked)
	}
	if perr != nil {
		return fmt.Errorf("Pack failed on a tree of files, directories and in-tree relative links: %v", perr)
	}
	spelled := dst
	switch c.DstVia {
	case "parentlink":
		os.Symlink(".", filepath.Join(r, "via"))
		spelled = filepath.Join(r, "via", "dst")
	case "dstlink":
		os.Symlink("dst", filepath.Join(r, "dl"))
		spelled = filepath.Join(r, "dl")
	case "doubleslash":
		spelled = r + "//dst"
	case "dot":
		spelled = r + "/./dst/."
	case "updown":
		spelled = r + "/dst/../dst"
	}
	uerr, panicked := pk.Unpack(pk.Opts{}, vars, data, spelled)
	if panicked != nil {
		return fmt.Errorf("Unpack panicked: %v", panicked)
	}
	if uerr != nil {
		return fmt.Errorf("Unpack failed on the slug Pack produced: %v", uerr)
	}
	after, err := fsx.Snapshot(dst, nil)
	if err != nil {
		return fmt.Errorf("harness: snapshot dst: %v", err)
	}
	var rules []refignore.Rule
	if c.Opts.Ignore {
		text := ""
		if c.Rules != nil {
			text = *c.Rules
		}
		rules = refignore.Rules(text)
	}
	// expectations
	keys := make([]string, 0, len(before))
	for k := range before {
		keys = append(keys, k)
	}
	sort.Strings(keys)
	var problems []string
	lenientDirs := map[string]bool{}
	expectPresent := map[string]bool{}
	for _, k := range keys {
		if k == "." {
			continue
		}
		e := before[k]
		switch e.Type {
		case "fifo", "socket", "char", "block", "other":
			continue // skipped by Pack
		}
		if c.Opts.Ignore {
			if e.Type == "dir" {
				if refignore.Excluded(rules, k, false) || refignore.Excluded(rules, k, true) || underExcludedDir(rules, k) {
					lenientDirs[k] = true
					continue
				}
			} else if refignore.Excluded(rules, k, false) {
				continue
			} else if underExcludedDir(rules, k) {
				// the file's own path is not excluded but an ancestor directory is:
				// C03 judges that class (pruning); C02 does not demand either outcome
				ev.Label("file-under-excluded-dir-skipped")
				lenientDirs[k] = true
				continue
			}
		}
		expectPresent[k] = true
	}
	for k := range expectPresent {
		e := before[k]
		g, ok := after[k]
		if !ok {
			problems = append(problems, fmt.Sprintf("%s (%s) missing after round trip", k, e.Type))
			continue
		}
		if g.Type != e.Type {
			problems = append(problems, fmt.Sprintf("%s: type %s became %s", k, e.Type, g.Type))
			continue
		}
		switch e.Type {
		case "file":
			if g.Sum != e.Sum || g.Size != e.Size {
				problems = append(problems, fmt.Sprintf("%s: content differs (size %d -> %d)", k, e.Size, g.Size))
			}
		case "symlink":
			if g.Target != e.Target {
				problems = append(problems, fmt.Sprintf("%s: link target %q became %q", k, e.Target, g.Target))
			}
			continue // link modes and times are exempt
		}
		if g.Mode&0777 != e.Mode&0777 {
			problems = append(problems, fmt.Sprintf("%s: permission bits %04o became %04o", k, e.Mode&0777, g.Mode&0777))
		}
		want := time.Unix(0, e.Mtime).Round(time.Second).UnixNano()
		if g.Mtime != want {
			problems = append(problems, fmt.Sprintf("%s: mtime %d, want %d (source %d rounded to the second)", k, g.Mtime, want, e.Mtime))
		}
	}
	for k, g := range after {
		if k == "." || expectPresent[k] {
			continue
		}
		if lenientDirs[k] {
			continue
		}
		// implicit parents of expected entries cannot be extra: every parent is itself a tree node
		problems = append(problems, fmt.Sprintf("%s (%s) appeared in the unpacked tree but is not expected (ignored, special or not in the source)", k, g.Type))
	}
	if len(problems) > 0 {
		sort.Strings(problems)
		if len(problems) > 6 {
			problems = problems[:6]
		}
		return fmt.Errorf("round trip (opts %+v) differs: %s", c.Opts, strings.Join(problems, "; "))
	}
	return nil
}

func underExcludedDir(rules []refignore.Rule, p string) bool {
	for d := path.Dir(p); d != "." && d != "/"; d = path.Dir(d) {
		if refignore.Excluded(rules, d, false) || refignore.Excluded(rules, d, true) {
			return true
		}
	}
	return false
}

func genCase(unpriv bool) func(t *rapid.T) Case {
	return func(t *rapid.T) Case {
		cfg := tgen.Config{MaxNodes: 22, Links: true, Special: !unpriv || true, IgnoreNames: true, Awkward: true, Unpriv: unpriv, OddTimes: true, HardLinks: true}
		c := Case{Tree: tgen.Gen(t, cfg)}
		c.Opts.Deref = rapid.Bool().Draw(t, "deref")
		c.Opts.Ignore = rapid.Bool().Draw(t, "ignore")
		c.DstVia = rapid.SampledFrom([]string{"", "", "", "", "parentlink", "dstlink", "doubleslash", "dot", "updown"}).Draw(t, "dstvia")
		c.SrcViaLink = rapid.IntRange(0, 4).Draw(t, "srcvialink") == 0
		return c
	}
}

// ---------------------------------------------------------------------------
// wide trees: more files than the process may hold open at a time (the job
// runs with a low RLIMIT_NOFILE), so that a descriptor kept per entry runs out

type WideCase struct {
	Dirs  int  `json:"dirs"`
	Files int  `json:"files"`
	Deref bool `json:"deref"`
}

var subWide = ev.Register("manyfiles", func(c WideCase) error {
	r, cleanup := fsx.Scratch("c02w-")
	defer cleanup()
	src, dst := filepath.Join(r, "src"), filepath.Join(r, "dst")
	var tree fsx.Tree
	for i := 0; i < c.Files; i++ {
		d := fmt.Sprintf("d%02d", i%c.Dirs)
		tree = append(tree, fsx.Node{Path: fmt.Sprintf("%s/f%03d.txt", d, i), Kind: "file", Content: fmt.Sprintf("IN:%d", i), Mode: 0644, Sec: 1500000000 + int64(i)})
		if i%7 == 3 {
			tree = append(tree, fsx.Node{Path: fmt.Sprintf("%s/l%03d", d, i), Kind: "symlink", Target: fmt.Sprintf("f%03d.txt", i)})
		}
	}
	if err := fsx.Materialise(src, tree, nil); err != nil {
		return fmt.Errorf("harness: materialise: %v", err)
	}
	os.Mkdir(dst, 0755)
	ev.NonTrivialKey(fmt.Sprintf("wide:%d:%d:%v", c.Dirs, c.Files, c.Deref), "more-files-than-descriptors")
	data, _, perr, panicked := pk.PackBytes(pk.Opts{Deref: c.Deref}, nil, src)
	if panicked != nil {
		return fmt.Errorf("Pack panicked: %v", panicked)
	}
	if perr != nil {
		return fmt.Errorf("Pack of %d files in %d directories failed: %v", c.Files, c.Dirs, perr)
	}
	uerr, panicked := pk.Unpack(pk.Opts{}, nil, data, dst)
	if panicked != nil {
		return fmt.Errorf("Unpack panicked: %v", panicked)
	}
	if uerr != nil {
		return fmt.Errorf("Unpack of the slug Pack produced from %d files failed: %v", c.Files, uerr)
	}
	before, err := fsx.Snapshot(src, nil)
	if err != nil {
		return fmt.Errorf("harness: %v", err)
	}
	after, err := fsx.Snapshot(dst, nil)
	if err != nil {
		return fmt.Errorf("harness: %v", err)
	}
	delete(before, ".")
	delete(after, ".")
	if d := fsx.Diff(before, after, "mode size target sum"); len(d) > 0 {
		if len(d) > 5 {
			d = d[:5]
		}
		return fmt.Errorf("round trip of %d files differs: %s", c.Files, strings.Join(d, "; "))
	}
	return nil
})

func TestPropManyFiles(t *testing.T) {
	ev.Check(t, subWide, func(t *rapid.T) WideCase {
		return WideCase{Dirs: rapid.IntRange(1, 6).Draw(t, "dirs"), Files: rapid.IntRange(90, 260).Draw(t, "files"), Deref: rapid.Bool().Draw(t, "deref")}
	})
}

func TestPropRoundTrip(t *testing.T) {
	ev.Check(t, subRound, genCase(os.Getenv("VERIF_DROP_UID") != "" && os.Getuid() != 0))
}

func TestReplay(t *testing.T) { ev.Replay(t) }
func TestKnown(t *testing.T)  { ev.KnownFindings(t) }
