// C03 — what is shipped is decided by .terraformignore semantics on archive
// paths. Oracle: lib/refignore (segment-wise matcher). DESIGN.md §5 C03.
package c03

import (
	"bytes"
	"context"
	"fmt"
	iofs "io/fs"
	"net/url"
	"os"
	"path"
	"path/filepath"
	"sort"
	"strings"
	"testing"

	"github.com/hashicorp/go-slug/sourceaddrs"
	"github.com/hashicorp/go-slug/sourcebundle"
	"pgregory.net/rapid"

	"verif/lib/ev"
	"verif/lib/fsx"
	"verif/lib/pk"
	"verif/lib/refignore"
	"verif/lib/rgen"
	"verif/lib/tarx"
	"verif/lib/tgen"
)

func TestMain(m *testing.M) { ev.Main(m, "C03") }

type Case struct {
	Lines []string `json:"lines"`
	CRLF  bool     `json:"crlf,omitempty"`
	NoEOL bool     `json:"no_eol,omitempty"` // the last line of the rule file has no line terminator
	// a comment line of 70000 bytes is inserted before rule number LongLine-1 (0 = none): too long for the line reader
	LongLine int `json:"long_line,omitempty"`
	// the same Packer first packs the directory while its rule file says "*" (everything ignored)
	WarmUp bool `json:"warm_up,omitempty"`
	NoFile bool `json:"no_file,omitempty"` // no .terraformignore at all: defaults only
	// .terraformignore is a symlink to a regular file of the tree that holds the rules
	RulesViaLink bool     `json:"rules_via_link,omitempty"`
	Tree         fsx.Tree `json:"tree"`
	Leg          string   `json:"leg"` // pack | off | deref | bundle
}

var subIgnore = ev.Register("ignore", checkIgnore).
	Classifier("c03-builder-removes-dirs-wholesale", func(c Case) bool { return c.Leg == "bundle" })

func (c Case) ruleText() string {
	lines := c.Lines
	if c.LongLine > 0 {
		at := c.LongLine - 1
		if at > len(lines) {
			at = len(lines)
		}
		lines = append(append(append([]string{}, lines[:at]...), "# "+strings.Repeat("x", 70000)), lines[at:]...)
	}
	text := rgen.Render(lines, c.CRLF)
	if c.NoEOL {
		text = strings.TrimSuffix(strings.TrimSuffix(text, "\n"), "\r")
	}
	return text
}

func fullTree(c Case) fsx.Tree {
	tr := append(fsx.Tree{}, c.Tree...)
	if !c.NoFile && c.RulesViaLink {
		tr = append(tr, fsx.Node{Path: "zz-ignore-rules", Kind: "file", Content: c.ruleText(), Mode: 0644, Sec: 1500000000},
			fsx.Node{Path: ".terraformignore", Kind: "symlink", Target: "zz-ignore-rules"})
	} else if !c.NoFile {
		tr = append(tr, fsx.Node{Path: ".terraformignore", Kind: "file", Content: c.ruleText(), Mode: 0644, Sec: 1500000000})
	}
	return tr
}

func shippedByPack(c Case, r string) (map[string]byte, string, error) {
	src := filepath.Join(r, "src")
	tr := fullTree(c)
	vars := map[string]string{"R": r}
	derefDir := ""
	if c.Leg == "deref" {
		// move one top-level directory outside and link to it
		for _, n := range tr {
			if n.Kind == "dir" && !strings.Contains(n.Path, "/") {
				derefDir = n.Path
				break
			}
		}
	}
	if derefDir != "" {
		var inside, outside fsx.Tree
		for _, n := range tr {
			if n.Path == derefDir || strings.HasPrefix(n.Path, derefDir+"/") {
				outside = append(outside, n)
			} else {
				inside = append(inside, n)
			}
		}
		inside = append(inside, fsx.Node{Path: derefDir, Kind: "symlink", Target: "../ext/" + derefDir})
		if err := fsx.Materialise(src, inside, vars); err != nil {
			return nil, "", fmt.Errorf("harness: %v", err)
		}
		if err := fsx.Materialise(filepath.Join(r, "ext"), outside, vars); err != nil {
			return nil, "", fmt.Errorf("harness: %v", err)
		}
	} else if err := fsx.Materialise(src, tr, vars); err != nil {
		return nil, "", fmt.Errorf("harness: %v", err)
	}
	opts := pk.Opts{Ignore: c.Leg != "off", Deref: c.Leg == "deref"}
	packer, perr := opts.Packer(vars)
	if perr != nil {
		return nil, derefDir, fmt.Errorf("harness: %v", perr)
	}
	if c.WarmUp {
		// an earlier Pack of the same directory with the same Packer, under other rules
		rf := filepath.Join(src, ".terraformignore")
		orig, rerr := os.ReadFile(rf)
		fi, _ := os.Lstat(rf)
		os.WriteFile(rf, []byte("*\n"), 0644)
		func() {
			defer func() { recover() }()
			packer.Pack(src, &bytes.Buffer{})
		}()
		if rerr == nil {
			os.WriteFile(rf, orig, 0644)
			os.Chtimes(rf, fi.ModTime(), fi.ModTime())
		} else {
			os.Remove(rf)
		}
	}
	var buf bytes.Buffer
	var err error
	var panicked any
	func() {
		defer func() { panicked = recover() }()
		_, err = packer.Pack(src, &buf)
	}()
	data := buf.Bytes()
	if panicked != nil {
		return nil, derefDir, fmt.Errorf("Pack panicked: %v", panicked)
	}
	if err != nil {
		return nil, derefDir, fmt.Errorf("Pack failed: %v", err)
	}
	dec, err := tarx.Decode(data)
	if err != nil {
		return nil, derefDir, fmt.Errorf("produced slug does not decode: %v", err)
	}
	out := map[string]byte{}
	for _, d := range dec {
		out[strings.TrimSuffix(d.Name, "/")] = d.Typeflag
	}
	return out, derefDir, nil
}

type treeFetcher struct {
	tree fsx.Tree
}

func (f treeFetcher) FetchSourcePackage(ctx context.Context, sourceType string, u *url.URL, targetDir string) (sourcebundle.FetchSourcePackageResponse, error) {
	return sourcebundle.FetchSourcePackageResponse{}, fsx.Materialise(targetDir, f.tree, nil)
}

type noDeps struct{}

func (noDeps) FindDependencies(fsys iofs.FS, subPath string, deps *sourcebundle.Dependencies) sourcebundle.Diagnostics {
	return nil
}

func shippedByBundle(c Case, r string) (map[string]byte, error) {
	target := filepath.Join(r, "bundle")
	if err := os.Mkdir(target, 0755); err != nil {
		return nil, fmt.Errorf("harness: %v", err)
	}
	b, err := sourcebundle.NewBuilder(target, treeFetcher{fullTree(c)}, nil)
	if err != nil {
		return nil, fmt.Errorf("harness: %v", err)
	}
	src := sourceaddrs.MustParseSource("https://example.com/pkg.tgz").(sourceaddrs.RemoteSource)
	var diags sourcebundle.Diagnostics
	var panicked any
	func() {
		defer func() { panicked = recover() }()
		diags = b.AddRemoteSource(context.Background(), src, noDeps{})
	}()
	if panicked != nil {
		return nil, fmt.Errorf("builder panicked: %v", panicked)
	}
	if diags.HasErrors() {
		var msgs []string
		for _, d := range diags {
			msgs = append(msgs, d.Description().Summary+": "+d.Description().Detail)
		}
		if c.LongLine > 0 && strings.Contains(strings.Join(msgs, " | "), "invalid .terraformignore file") {
			// the builder refuses a rule file it cannot read instead of falling back: loud, nothing to compare
			ev.Label("bundle-refuses-unreadable-rule-file")
			return nil, errNotJudged
		}
		if strings.Contains(strings.Join(msgs, " | "), "invalid .terraformignore rules") && strings.Contains(c.ruleText(), "[") {
			// a line that is not a pattern: the builder refuses the rule file, Pack ignores the line
			ev.Label("bundle-refuses-invalid-rule-line")
			return nil, errNotJudged
		}
		if strings.Contains(strings.Join(msgs, " | "), "filenames with newlines are not supported") {
			// the package checksum (dirhash) refuses such names: the build fails loudly, nothing to compare
			ev.Label("bundle-refuses-newline-names")
			return nil, errNotJudged
		}
		return nil, fmt.Errorf("bundle build failed although the package holds only regular files and directories: %s", strings.Join(msgs, " | "))
	}
	bundle, err := b.Close()
	if err != nil {
		return nil, fmt.Errorf("Close failed: %v", err)
	}
	dir, err := bundle.LocalPathForRemoteSource(src)
	if err != nil {
		return nil, fmt.Errorf("lookup failed: %v", err)
	}
	snap, err := fsx.Snapshot(dir, nil)
	if err != nil {
		return nil, fmt.Errorf("harness: %v", err)
	}
	out := map[string]byte{}
	for k, e := range snap {
		if k == "." {
			continue
		}
		if e.Type == "dir" {
			out[k] = '5'
		} else {
			out[k] = '0'
		}
	}
	return out, nil
}

var errNotJudged = fmt.Errorf("not judged")

func checkIgnore(c Case) error {
	r, cleanup := fsx.Scratch("c03-")
	defer cleanup()
	text := c.ruleText()
	if c.NoFile {
		text = ""
	}
	rules := refignore.Rules(text)
	var shipped map[string]byte
	var err error
	derefDir := ""
	if c.Leg == "bundle" {
		shipped, err = shippedByBundle(c, r)
	} else {
		shipped, derefDir, err = shippedByPack(c, r)
	}
	if err == errNotJudged {
		return nil
	}
	if err != nil {
		hasLink := c.RulesViaLink && !c.NoFile
		for _, n := range c.Tree {
			if n.Kind == "symlink" {
				hasLink = true
			}
		}
		if c.Leg == "bundle" && hasLink && strings.Contains(err.Error(), "bundle build failed") {
			// a link whose target is missing or was removed by the rules makes the
			// build fail for reasons that are C10's business
			ev.Label("bundle-build-failed-with-links")
			return nil
		}
		if c.Leg == "deref" && hasLink && strings.HasPrefix(err.Error(), "Pack failed") {
			// links inside the directory that was moved outside become external
			// links themselves; dangling ones legitimately fail the Pack
			ev.Label("deref-pack-failed-with-links")
			return nil
		}
		return err
	}
	if c.Leg == "deref" && derefDir == "" {
		ev.Label("deref-leg-without-directory")
	}
	tr := fullTree(c)
	f := rgen.Describe(c.Lines)
	anyMatch := false
	var problems []string
	nodes := tr.Sorted()
	for _, n := range nodes {
		isDir := n.Kind == "dir"
		exFile := c.Leg != "off" && refignore.Excluded(rules, n.Path, false)
		exDir := c.Leg != "off" && isDir && refignore.Excluded(rules, n.Path, true)
		for _, i := range refignore.MatchedBy(rules, n.Path) {
			if i >= 3 { // a rule from the file, not a built-in one
				anyMatch = true
			}
		}
		_, present := shipped[n.Path]
		if derefDir != "" {
			if n.Path == derefDir {
				continue // the dereferenced directory itself gets no entry
			}
			if strings.HasPrefix(n.Path, derefDir+"/") && refignore.Excluded(rules, derefDir, false) {
				ev.Label("deref-link-itself-excluded")
				continue
			}
		}
		if isDir {
			// Directory entries are judged only in the unambiguous situation: no
			// negation anywhere in the file and the directory excluded in both forms.
			if exFile && exDir && !f.Negation && present && c.Leg != "bundle" {
				problems = append(problems, fmt.Sprintf("directory %q is excluded by the rules but has an entry", n.Path))
			}
			continue
		}
		switch {
		case exFile && present:
			problems = append(problems, fmt.Sprintf("file %q is excluded by its own path (rules %v) but was shipped", n.Path, ruleTexts(rules, n.Path)))
		case !exFile && !present:
			if c.Leg == "bundle" && ev.IsKnown("c03-builder-removes-dirs-wholesale") && underMatchedDir(rules, n.Path) {
				ev.Excluded("c03-builder-removes-dirs-wholesale")
				continue
			}
			problems = append(problems, fmt.Sprintf("file %q is not excluded by its own path (matching rules %v) but is missing", n.Path, ruleTexts(rules, n.Path)))
		}
	}
	if anyMatch && (f.Negation || f.Anchored || f.DoubleStar || f.Wildcard || f.Meta) {
		lbl := "rules-match:" + c.Leg
		ev.NonTrivial(c, lbl)
	} else if anyMatch {
		ev.Label("plain-rule-matches")
	}
	if len(problems) > 0 {
		sort.Strings(problems)
		if len(problems) > 5 {
			problems = problems[:5]
		}
		return fmt.Errorf("leg %s, rules %q: %s", c.Leg, c.Lines, strings.Join(problems, "; "))
	}
	return nil
}

func underMatchedDir(rules []refignore.Rule, p string) bool {
	for d := path.Dir(p); d != "." && d != "/"; d = path.Dir(d) {
		if refignore.Excluded(rules, d, false) || refignore.Excluded(rules, d, true) {
			return true
		}
	}
	return false
}

func ruleTexts(rules []refignore.Rule, p string) []string {
	var out []string
	for _, i := range refignore.MatchedBy(rules, p) {
		out = append(out, rules[i].Text)
	}
	return out
}

func genCase(leg string) func(t *rapid.T) Case {
	return func(t *rapid.T) Case {
		c := Case{Leg: leg}
		if leg == "" {
			c.Leg = rapid.SampledFrom([]string{"pack", "pack", "deref", "bundle", "off"}).Draw(t, "leg")
		}
		c.CRLF = rapid.IntRange(0, 9).Draw(t, "crlf") == 0
		c.NoEOL = rapid.IntRange(0, 4).Draw(t, "noeol") == 0
		if rapid.IntRange(0, 24).Draw(t, "longline?") == 0 {
			c.LongLine = 1 + rapid.IntRange(0, 3).Draw(t, "longlineat")
		}
		c.WarmUp = rapid.IntRange(0, 5).Draw(t, "warmup") == 0
		c.NoFile = rapid.IntRange(0, 11).Draw(t, "nofile") == 0
		c.RulesViaLink = !c.NoFile && rapid.IntRange(0, 7).Draw(t, "rulesvialink") == 0
		c.Tree = tgen.Gen(t, tgen.Config{MaxNodes: 16, IgnoreNames: true, ExtraNames: append(append([]string{}, rgen.Names...), "line\nbreak", "x\ny.log"), Links: true, LinkPct: 10, LinkIntents: []string{"file", "dotslash", "updown"}})
		// always some members of the built-in classes
		extra := fsx.Tree{
			{Path: ".git", Kind: "dir", Mode: 0755}, {Path: ".git/config", Kind: "file", Content: "IN:gitcfg", Mode: 0644},
			{Path: ".terraform", Kind: "dir", Mode: 0755}, {Path: ".terraform/plugins", Kind: "dir", Mode: 0755},
			{Path: ".terraform/plugins/p", Kind: "file", Content: "IN:plugin", Mode: 0644},
			{Path: ".terraform/modules", Kind: "dir", Mode: 0755}, {Path: ".terraform/modules/m.json", Kind: "file", Content: "IN:mod", Mode: 0644},
			// a checkout below the kept directory: the built-in .git rule has the last word over the re-inclusion
			{Path: ".terraform/modules/m", Kind: "dir", Mode: 0755}, {Path: ".terraform/modules/m/.git", Kind: "dir", Mode: 0755}, {Path: ".terraform/modules/m/.git/HEAD", Kind: "file", Content: "IN:head", Mode: 0644},
			{Path: ".terraform/modules/m/main.tf", Kind: "file", Content: "IN:main", Mode: 0644},
		}
		have := map[string]bool{}
		for _, n := range c.Tree {
			have[n.Path] = true
		}
		for _, e := range extra {
			if !have[e.Path] && !have[path.Dir(e.Path)+"\x00file"] {
				ok := true
				// a parent may exist as a file in the drawn tree
				for d := path.Dir(e.Path); d != "."; d = path.Dir(d) {
					for _, n := range c.Tree {
						if n.Path == d && n.Kind != "dir" {
							ok = false
						}
					}
				}
				if ok {
					c.Tree = append(c.Tree, e)
				}
			}
		}
		var paths []string
		for _, n := range c.Tree {
			paths = append(paths, n.Path)
		}
		c.Lines = rgen.GenRuleLines(t, paths...)
		return c
	}
}

func TestPropIgnorePack(t *testing.T)   { ev.Check(t, subIgnore, genCase("pack")) }
func TestPropIgnoreDeref(t *testing.T)  { ev.Check(t, subIgnore, genCase("deref")) }
func TestPropIgnoreBundle(t *testing.T) { ev.Check(t, subIgnore, genCase("bundle")) }
func TestPropIgnoreOff(t *testing.T)    { ev.Check(t, subIgnore, genCase("off")) }

func TestReplay(t *testing.T) { ev.Replay(t) }
func TestKnown(t *testing.T)  { ev.KnownFindings(t) }
