// C04 — every symlink left by Unpack resolves inside the destination.
// Oracle: physical, component-wise resolution of every link found under dst
// after Unpack, compared with the real path of dst. DESIGN.md §5 C04.
package c04

import (
	"bytes"
	"errors"
	"fmt"
	"os"
	"path/filepath"
	"strings"
	"testing"

	slug "github.com/hashicorp/go-slug"
	"pgregory.net/rapid"

	"verif/lib/ev"
	"verif/lib/fsx"
	"verif/lib/tarx"
	"verif/lib/ugen"
)

func TestMain(m *testing.M) { ev.Main(m, "C04") }

var subLinks = ev.Register("links", checkLinks)
var subReject = ev.Register("reject", checkReject)

func unpack(c ugen.Case, a *ugen.Arena) (err error, panicked any) {
	r, _, berr := c.Stream(a.Vars)
	if berr != nil {
		return berr, "harness-build"
	}
	defer func() {
		if p := recover(); p != nil {
			panicked = p
		}
	}()
	var opts []slug.PackerOption
	for _, al := range c.Allow {
		opts = append(opts, slug.AllowSymlinkTarget(fsx.Subst(al, a.Vars)))
	}
	p, perr := slug.NewPacker(opts...)
	if perr != nil {
		return perr, "harness-packer"
	}
	defer a.Enter()()
	return p.Unpack(r, a.Spelled), nil
}

func allowPrefixes(c ugen.Case, a *ugen.Arena) []string {
	var out []string
	for _, al := range c.Allow {
		p := fsx.Subst(al, a.Vars)
		if !filepath.IsAbs(p) {
			out = append(out, filepath.Join(a.SpelledAbs(), p), filepath.Join(a.Dst, p))
		} else {
			out = append(out, filepath.Clean(p))
		}
	}
	return out
}

type foundLink struct {
	rel, target string
}

func walkLinks(root string) ([]foundLink, error) {
	var out []foundLink
	err := filepath.Walk(root, func(p string, fi os.FileInfo, err error) error {
		if err != nil {
			return nil
		}
		if fi.Mode()&os.ModeSymlink != 0 {
			t, _ := os.Readlink(p)
			rel, _ := filepath.Rel(root, p)
			out = append(out, foundLink{rel, t})
		}
		return nil
	})
	return out, err
}

func cooperating(c ugen.Case) (bool, string) {
	var links []tarx.Entry
	for _, e := range c.Entries {
		if e.Type == "symlink" {
			links = append(links, e)
		}
	}
	if len(c.Allow) > 0 && len(links) > 0 {
		return true, "allow-list"
	}
	for _, l := range links {
		if strings.Contains(l.Link, "dst-evil") || strings.Contains(l.Link, "{DST}-evil") || strings.Contains(l.Link, "{DST}X") || strings.Contains(l.Link, "dstX") {
			return true, "sibling-prefix-target"
		}
	}
	if len(links) >= 2 {
		for i, l := range links {
			for j, m := range links {
				if i == j {
					continue
				}
				n := strings.Trim(filepath.Clean("/"+m.Name), "/")
				t := strings.TrimPrefix(filepath.ToSlash(filepath.Clean(l.Link)), "../")
				if n != "" && (t == n || strings.HasPrefix(t, n+"/") || strings.Contains(l.Link, n+"/")) {
					return true, "link-target-traverses-other-link-name"
				}
			}
		}
	}
	return false, ""
}

func checkLinks(c ugen.Case) error {
	a, err := ugen.NewArena(c)
	if err != nil {
		return fmt.Errorf("harness: arena: %v", err)
	}
	defer a.Close()
	defer notePreExisting(a)()
	if ok, why := cooperating(c); ok {
		ev.NonTrivial(c, why)
	}
	uerr, panicked := unpack(c, a)
	if s, ok := panicked.(string); ok && strings.HasPrefix(s, "harness-") {
		ev.Label("archive-not-buildable")
		return nil
	}
	ev.LabelIf(uerr == nil, "unpack-ok")
	ev.LabelIf(uerr != nil, "unpack-error")
	return auditLinks(a, allowPrefixes(c, a), fmt.Sprintf("after Unpack (returned %v)", uerr), nil, 0)
}

// preExisting: arena root -> links that were under dst before the first Unpack call (name -> target).
var preExisting = map[string]map[string]string{}

func notePreExisting(a *ugen.Arena) func() {
	m := map[string]string{}
	if links, err := walkLinks(a.Dst); err == nil {
		for _, l := range links {
			m[l.rel] = l.target
		}
	}
	preExisting[a.R] = m
	return func() { delete(preExisting, a.R) }
}

// auditLinks follows every link under dst the way the kernel does. born, when
// given, maps a link (relative to dst) to the number of the Unpack call that
// created it: a link left by an earlier call that only now leads outside is the
// known finding c04-links-across-unpack-calls; a link of the current call is not.
func auditLinks(a *ugen.Arena, allow []string, when string, born map[string]int, current int) error {
	links, err := walkLinks(a.Dst)
	if err != nil {
		return fmt.Errorf("harness: walk: %v", err)
	}
	ev.LabelIf(len(links) > 0, "links-left-in-dst")
	for _, l := range links {
		if t, ok := preExisting[a.R][l.rel]; ok && t == l.target {
			// in the destination before any Unpack call, and still as it was: not a link Unpack left
			ev.Label("pre-existing-link-untouched")
			continue
		}
		linkPath := filepath.Join(a.Dst, l.rel)
		res, _, loop := fsx.Resolve(filepath.Dir(linkPath), l.target)
		if loop {
			ev.Label("link-loop")
			continue
		}
		if fsx.Inside(a.Dst, res) {
			continue
		}
		// where the target points when read as text, both for the spelling
		// Unpack was given and for the physical path
		lex1 := ugen.LexicalTarget(a.SpelledAbs(), l.rel, l.target)
		lex2 := ugen.LexicalTarget(a.Dst, l.rel, l.target)
		// The caller allowed a place. A link is covered if that is where it leads -
		// or where its target reads as leading, provided the text and the
		// operating system agree (links met inside the allowed place itself
		// are the caller's business, links of the archive are not).
		allowed := false
		for _, p := range allow {
			if fsx.Inside(p, res) {
				allowed = true
			}
			for _, lex := range []string{lex1, lex2} {
				if !fsx.Inside(p, lex) {
					continue
				}
				if phys, _, lloop := fsx.Resolve("/", lex); !lloop && phys == res {
					allowed = true
				} else {
					ev.Label("reads-as-allowed-but-leads-elsewhere")
				}
			}
		}
		if allowed {
			ev.Label("escape-allow-listed")
			continue
		}
		if (fsx.Inside(a.SpelledAbs(), lex1) || fsx.Inside(a.Dst, lex2)) && ev.IsKnown("c04-link-via-link") {
			// textually inside dst, physically outside by way of another link
			ev.Excluded("c04-link-via-link")
			continue
		}
		if born != nil && born[l.rel] != current && ev.IsKnown("c04-links-across-unpack-calls") {
			// left by an earlier call, made to lead outside by what this call created
			ev.Excluded("c04-links-across-unpack-calls")
			continue
		}
		return fmt.Errorf("%s the link %q -> %q resolves to %q, outside dst %q", when, l.rel, l.target, res, a.Dst)
	}
	return nil
}

// ---------------------------------------------------------------------------
// several Unpack calls into the same destination

var subSequence = ev.Register("sequence", checkSequence)

func checkSequence(s ugen.SeqCase) error {
	a, err := ugen.NewArena(s.First)
	if err != nil {
		return fmt.Errorf("harness: arena: %v", err)
	}
	defer a.Close()
	defer notePreExisting(a)()
	born := map[string]int{}
	targets := map[string]string{}
	var allow []string
	for i := 0; i <= len(s.More); i++ {
		c := s.AsCase(i)
		if i > 0 && s.More[i-1].Wipe {
			a.Wipe()
			born, targets = map[string]int{}, map[string]string{}
		}
		uerr, panicked := unpack(c, a)
		if str, ok := panicked.(string); ok && strings.HasPrefix(str, "harness-") {
			ev.Label("archive-not-buildable")
			return nil
		}
		if panicked != nil {
			return fmt.Errorf("Unpack number %d panicked: %v", i+1, panicked)
		}
		links, err := walkLinks(a.Dst)
		if err != nil {
			return fmt.Errorf("harness: walk: %v", err)
		}
		seen := map[string]bool{}
		for _, l := range links {
			seen[l.rel] = true
			if old, ok := targets[l.rel]; !ok || old != l.target {
				born[l.rel], targets[l.rel] = i, l.target
			}
		}
		for rel := range targets {
			if !seen[rel] {
				delete(targets, rel)
				delete(born, rel)
			}
		}
		allow = append(allow, allowPrefixes(c, a)...)
		if err := auditLinks(a, allow, fmt.Sprintf("after Unpack number %d into the same destination (returned %v)", i+1, uerr), born, i); err != nil {
			return err
		}
	}
	ev.NonTrivial(s, "several-unpacks-one-destination")
	return nil
}

func TestPropSequence(t *testing.T) {
	ev.Check(t, subSequence, ugen.GenSeq)
}

// RejectCase: a benign archive with exactly one offending link entry.
type RejectCase struct {
	Before []tarx.Entry `json:"before"`
	Bad    tarx.Entry   `json:"bad"`
	After  []tarx.Entry `json:"after"`
}

func checkReject(rc RejectCase) error {
	c := ugen.Case{Spelling: "clean", Fault: ugen.Fault{Kind: "none"}}
	c.Entries = append(append(append([]tarx.Entry{}, rc.Before...), rc.Bad), rc.After...)
	a, err := ugen.NewArena(c)
	if err != nil {
		return fmt.Errorf("harness: arena: %v", err)
	}
	defer a.Close()
	ev.NonTrivial(rc, "one-offending-link")
	uerr, panicked := unpack(c, a)
	if panicked != nil {
		return fmt.Errorf("harness/Unpack panicked: %v", panicked)
	}
	if uerr == nil {
		return fmt.Errorf("archive with link %q -> %q (leaves dst) was unpacked without error", rc.Bad.Name, rc.Bad.Link)
	}
	var ise *slug.IllegalSlugError
	if !errors.As(uerr, &ise) {
		return fmt.Errorf("link %q -> %q rejected with %T (%v), not an illegal-slug error", rc.Bad.Name, rc.Bad.Link, uerr, uerr)
	}
	if ugen.Exists(filepath.Join(a.Dst, strings.TrimPrefix(rc.Bad.Name, "/"))) {
		if fi, err := os.Lstat(filepath.Join(a.Dst, strings.TrimPrefix(rc.Bad.Name, "/"))); err == nil && fi.Mode()&os.ModeSymlink != 0 {
			return fmt.Errorf("rejected link %q -> %q was created anyway", rc.Bad.Name, rc.Bad.Link)
		}
	}
	return nil
}

var benignNames = []string{"f1", "f2", "sub/f3", "sub/deep/f4", "other/f5"}

func genBenign(t *rapid.T, label string) []tarx.Entry {
	n := rapid.IntRange(0, 3).Draw(t, label+"n")
	var out []tarx.Entry
	for i := 0; i < n; i++ {
		name := benignNames[(i+rapid.IntRange(0, 4).Draw(t, label+"k"))%len(benignNames)]
		out = append(out, tarx.Entry{Name: label + name, Type: "file", Mode: 0644, Body: "IN:x", Sec: 1400000000})
	}
	return out
}

// directly escaping targets, by position depth of the link name
func genBadLink(t *rapid.T) tarx.Entry {
	depth := rapid.IntRange(0, 2).Draw(t, "depth")
	name := strings.Repeat("ld/", depth) + "lnk"
	ups := strings.Repeat("../", depth+1)
	targets := []string{
		ups, ups + "dst-evil", ups + "dst-evil/x", ups + "dstX", ups + "outside/f", ups + "../c2", ups + "c3",
		"{R}/l1/l2/l3/outside", "{R}/l1/l2/l3/dst-evil/x", "{DST}-evil", "{DST}X", "{DST}/..", "/etc/passwd", "/",
		"./" + ups + "dst-evil", "x/../" + ups + "outside", strings.TrimSuffix(ups, "/"),
	}
	e := tarx.Entry{Name: name, Type: "symlink", Mode: 0777, Link: rapid.SampledFrom(targets).Draw(t, "target")}
	e.Raw = rapid.Bool().Draw(t, "raw")
	if rapid.Bool().Draw(t, "lead") {
		e.Name = "./" + e.Name
	}
	return e
}

// ThroughCase: an entry whose path passes through a link created earlier by
// the same archive. Unpack promises not to extract anything through a symlink.
type ThroughCase struct {
	LinkName   string `json:"link_name"`
	LinkTarget string `json:"link_target"`
	Below      string `json:"below"` // path below the link, e.g. "x" or "sub/x"
	Kind       string `json:"kind"`  // file | dir | symlink
	Spelling   string `json:"spelling"`
	Raw        bool   `json:"raw"`
}

var subThrough = ev.Register("through", func(tc ThroughCase) error {
	c := ugen.Case{Spelling: "clean", Fault: ugen.Fault{Kind: "none"}}
	name := tc.LinkName + "/" + tc.Below
	switch tc.Spelling {
	case "dotslash":
		name = "./" + name
	case "slash":
		name = "/" + name
	case "detour":
		name = "zz/../" + name
	case "dot":
		name = tc.LinkName + "/./" + tc.Below
	}
	e := tarx.Entry{Name: name, Type: tc.Kind, Mode: 0644, Body: "IN:through", Raw: tc.Raw}
	if tc.Kind == "symlink" {
		e.Link = "nothing"
		e.Body = ""
	}
	c.Entries = []tarx.Entry{
		{Name: "real/", Type: "dir", Mode: 0755},
		{Name: "real/sub/", Type: "dir", Mode: 0755},
		{Name: tc.LinkName, Type: "symlink", Mode: 0777, Link: tc.LinkTarget, Raw: tc.Raw},
		e,
	}
	a, err := ugen.NewArena(c)
	if err != nil {
		return fmt.Errorf("harness: arena: %v", err)
	}
	defer a.Close()
	ev.NonTrivial(tc, "entry-below-link")
	uerr, panicked := unpack(c, a)
	if panicked != nil {
		return fmt.Errorf("Unpack panicked: %v", panicked)
	}
	if uerr == nil {
		return fmt.Errorf("entry %q lies below the link %q -> %q created by the same archive, but Unpack extracted it without error", name, tc.LinkName, tc.LinkTarget)
	}
	// and nothing may have been materialised through the link ("sub" alone
	// already exists at real/sub, so it cannot tell)
	if tc.Below != "sub" {
		for _, base := range []string{"real", "real/sub"} {
			if ugen.Exists(filepath.Join(a.Dst, base, tc.Below)) && !(base == "real" && strings.HasPrefix(tc.Below, "sub/") && false) {
				if base == "real" && tc.Below == "sub/x" {
					// real/sub/x can only come from this entry as well
				}
				return fmt.Errorf("entry %q was materialised through the link %q (found at %s/%s) although Unpack returned %v", name, tc.LinkName, base, tc.Below, uerr)
			}
		}
	}
	return nil
})

func TestPropThrough(t *testing.T) {
	ev.Check(t, subThrough, func(t *rapid.T) ThroughCase {
		return ThroughCase{
			LinkName:   rapid.SampledFrom([]string{"l", "d/l", "real/l2"}).Draw(t, "lname"),
			LinkTarget: rapid.SampledFrom([]string{"real", "./real", "real/sub", "real/../real"}).Draw(t, "ltarget"),
			Below:      rapid.SampledFrom([]string{"x", "sub/x", "new/deep/x", "sub"}).Draw(t, "below"),
			Kind:       rapid.SampledFrom([]string{"file", "dir", "symlink"}).Draw(t, "kind"),
			Spelling:   rapid.SampledFrom([]string{"plain", "dotslash", "slash", "detour", "dot"}).Draw(t, "spelling"),
			Raw:        rapid.Bool().Draw(t, "raw"),
		}
	})
}

// ReuseCase: one Packer value with a relative allow-list entry unpacks into
// two different destinations; what is allowed is relative to each destination.
type ReuseCase struct {
	Allow      string `json:"allow"`       // relative allow-list entry
	FirstLink  string `json:"first_link"`  // target of the link in the first archive (relative to the first dst)
	SecondLink string `json:"second_link"` // target of the link in the second archive (relative to the second dst)
	SecondOK   bool   `json:"second_ok"`   // whether the second target is allow-listed for the second dst
}

var subReuse = ev.Register("reuse", func(rc ReuseCase) error {
	r, cleanup := fsx.Scratch("c04r-")
	defer cleanup()
	tree := fsx.Tree{
		{Path: "one/dst", Kind: "dir", Mode: 0755}, {Path: "one/shared/f", Kind: "file", Content: "OUT:one-shared"},
		{Path: "two/deep/dst", Kind: "dir", Mode: 0755}, {Path: "two/deep/shared/f", Kind: "file", Content: "OUT:two-shared"},
		{Path: "one/shared-private/k", Kind: "file", Content: "OUT:private"},
	}
	if err := fsx.Materialise(r, tree, nil); err != nil {
		return fmt.Errorf("harness: %v", err)
	}
	p, err := slug.NewPacker(slug.AllowSymlinkTarget(rc.Allow))
	if err != nil {
		return fmt.Errorf("harness: %v", err)
	}
	ev.NonTrivial(rc, "packer-reused-across-destinations")
	mk := func(link string) []byte {
		b, _ := tarx.Build([]tarx.Entry{{Name: "ok", Type: "file", Mode: 0644, Body: "x"}, {Name: "l", Type: "symlink", Mode: 0777, Link: link}}, nil)
		return b
	}
	dst1 := filepath.Join(r, "one", "dst")
	dst2 := filepath.Join(r, "two", "deep", "dst")
	_ = p.Unpack(bytes.NewReader(mk(rc.FirstLink)), dst1)
	err2 := p.Unpack(bytes.NewReader(mk(rc.SecondLink)), dst2)
	if rc.SecondOK {
		if err2 != nil {
			return fmt.Errorf("second Unpack (same Packer, AllowSymlinkTarget(%q)) refused the link %q, which is allow-listed relative to the second destination: %v", rc.Allow, rc.SecondLink, err2)
		}
		return nil
	}
	if err2 == nil {
		return fmt.Errorf("second Unpack (same Packer, AllowSymlinkTarget(%q)) accepted the link %q, which is not allow-listed for the second destination %q", rc.Allow, rc.SecondLink, dst2)
	}
	if fi, lerr := os.Lstat(filepath.Join(dst2, "l")); lerr == nil && fi.Mode()&os.ModeSymlink != 0 {
		res, _, _ := fsx.Resolve(dst2, rc.SecondLink)
		if !fsx.Inside(dst2, res) {
			return fmt.Errorf("second Unpack reported %v but left the link l -> %q (resolves to %q)", err2, rc.SecondLink, res)
		}
	}
	return nil
})

func TestPropReuse(t *testing.T) {
	ev.Check(t, subReuse, func(t *rapid.T) ReuseCase {
		rc := ReuseCase{Allow: rapid.SampledFrom([]string{"../shared", "../shared/", "../shared/f"}).Draw(t, "allow")}
		rc.FirstLink = rapid.SampledFrom([]string{"../shared/f", "ok", "../shared", "../shared-private/k", "../nowhere"}).Draw(t, "first")
		switch rapid.IntRange(0, 3).Draw(t, "second") {
		case 0:
			rc.SecondLink, rc.SecondOK = "../shared/f", true
		case 1:
			rc.SecondLink, rc.SecondOK = "../../../one/shared/f", false // the first destination's allowed directory
		case 2:
			rc.SecondLink, rc.SecondOK = "../../../one/shared-private/k", false
		default:
			rc.SecondLink, rc.SecondOK = "../shared-x", false
		}
		return rc
	})
}

// ViaCase: two links that are each textually inside dst; the second leads out
// by way of the first. In either order Unpack must refuse with an illegal-slug
// error and must not leave the escaping link behind.
type ViaCase struct {
	First   tarx.Entry   `json:"first"`
	Second  tarx.Entry   `json:"second"`
	Swap    bool         `json:"swap"`
	Between []tarx.Entry `json:"between,omitempty"`
}

var subVia = ev.Register("viareject", func(vc ViaCase) error {
	c := ugen.Case{Spelling: "clean", Fault: ugen.Fault{Kind: "none"}}
	a, b := vc.First, vc.Second
	if vc.Swap {
		a, b = b, a
	}
	c.Entries = append(append([]tarx.Entry{a}, vc.Between...), b)
	ar, err := ugen.NewArena(c)
	if err != nil {
		return fmt.Errorf("harness: arena: %v", err)
	}
	defer ar.Close()
	ev.NonTrivial(vc, "escape-by-way-of-another-link")
	uerr, panicked := unpack(c, ar)
	if panicked != nil {
		return fmt.Errorf("Unpack panicked: %v", panicked)
	}
	if uerr == nil {
		return fmt.Errorf("links %q -> %q and %q -> %q together lead out of dst, but Unpack returned nil", a.Name, a.Link, b.Name, b.Link)
	}
	var ise *slug.IllegalSlugError
	if !errors.As(uerr, &ise) {
		return fmt.Errorf("links %q -> %q and %q -> %q: refused with %T (%v), not an illegal-slug error", a.Name, a.Link, b.Name, b.Link, uerr, uerr)
	}
	links, _ := walkLinks(ar.Dst)
	for _, l := range links {
		res, _, loop := fsx.Resolve(filepath.Dir(filepath.Join(ar.Dst, l.rel)), l.target)
		if !loop && !fsx.Inside(ar.Dst, res) {
			return fmt.Errorf("Unpack reported %v but left the link %q -> %q, which resolves to %q", uerr, l.rel, l.target, res)
		}
	}
	return nil
})

func TestPropVia(t *testing.T) {
	ev.Check(t, subVia, func(t *rapid.T) ViaCase {
		// first: a link to a directory above its own position but still inside dst
		depth := rapid.IntRange(0, 2).Draw(t, "depth")
		dir := strings.Repeat("d/", depth)
		first := tarx.Entry{Name: dir + "up", Type: "symlink", Mode: 0777}
		if depth == 0 {
			first.Link = "."
		} else {
			first.Link = strings.TrimSuffix(strings.Repeat("../", depth), "/") // dst itself
		}
		// second: through the first, then up
		tail := rapid.SampledFrom([]string{"..", "../..", "../dst-evil", "../dst-evil/x", "../outside/f", "../c3"}).Draw(t, "tail")
		second := tarx.Entry{Name: rapid.SampledFrom([]string{"out", "e/out", "./out"}).Draw(t, "sname"), Type: "symlink", Mode: 0777}
		sdepth := strings.Count(strings.TrimPrefix(second.Name, "./"), "/")
		second.Link = strings.Repeat("../", sdepth) + dir + "up/" + tail
		first.Raw, second.Raw = rapid.Bool().Draw(t, "raw1"), rapid.Bool().Draw(t, "raw2")
		vc := ViaCase{First: first, Second: second, Swap: rapid.Bool().Draw(t, "swap")}
		if rapid.Bool().Draw(t, "between") {
			vc.Between = []tarx.Entry{{Name: "ok.txt", Type: "file", Mode: 0644, Body: "x"}}
		}
		return vc
	})
}

func TestPropLinks(t *testing.T) {
	ev.Check(t, subLinks, func(t *rapid.T) ugen.Case {
		return ugen.GenCase(t, 60, 15, false, true)
	})
}

func TestPropReject(t *testing.T) {
	ev.Check(t, subReject, func(t *rapid.T) RejectCase {
		return RejectCase{Before: genBenign(t, "p/"), Bad: genBadLink(t), After: genBenign(t, "q/")}
	})
}

func TestReplay(t *testing.T) { ev.Replay(t) }
func TestKnown(t *testing.T)  { ev.KnownFindings(t) }
