package c05

// Dereferencing when the source directory is named through a symlinked
// directory whose own parent is not the parent of its name: a ".." that
// climbs past it means one place to the operating system and another to a
// reading of the path as text.

import (
	"archive/tar"
	"fmt"
	"os"
	"path/filepath"
	"strings"
	"testing"

	"pgregory.net/rapid"

	"verif/lib/ev"
	"verif/lib/fsx"
	"verif/lib/pk"
	"verif/lib/tarx"
)

type DeepCase struct {
	Depth   int  `json:"depth"`    // directory depth of the link below the source root
	DirLink bool `json:"dir_link"` // the link leads to a directory (else to a file)
	Direct  bool `json:"direct"`   // control: the source is named by its physical path
	Ignore  bool `json:"ignore"`
}

var subDeep = ev.Register("deeplink", func(c DeepCase) error {
	x, cleanup := fsx.Scratch("c05d-")
	defer cleanup()
	sub := strings.Repeat("s/", c.Depth)
	ups := strings.Repeat("../", c.Depth+2)
	tree := fsx.Tree{
		{Path: "real/a/b/src/keep.txt", Kind: "file", Content: "IN:keep", Mode: 0644, Sec: 1500000000},
		{Path: "real/a/x/real.txt", Kind: "file", Content: "OUT:physical", Mode: 0644, Sec: 1400000001},
		{Path: "real/a/xf", Kind: "file", Content: "OUT:physical-f", Mode: 0644, Sec: 1400000002},
		{Path: "x/decoy.txt", Kind: "file", Content: "OUT:textual", Mode: 0600, Sec: 1400000003},
		{Path: "xf", Kind: "file", Content: "OUT:textual-ff", Mode: 0600, Sec: 1400000004},
		{Path: "L", Kind: "symlink", Target: "real/a/b"},
	}
	target := ups + "xf"
	if c.DirLink {
		target = ups + "x"
	}
	tree = append(tree, fsx.Node{Path: "real/a/b/src/" + sub + "l", Kind: "symlink", Target: target})
	if err := fsx.Materialise(x, tree, nil); err != nil {
		return fmt.Errorf("harness: %v", err)
	}
	src := filepath.Join(x, "L", "src")
	if c.Direct {
		src = filepath.Join(x, "real", "a", "b", "src")
	}
	ev.NonTrivial(c, "source-below-a-symlinked-directory")
	data, _, perr, panicked := pk.PackBytes(pk.Opts{Deref: true, Ignore: c.Ignore}, nil, src)
	if panicked != nil {
		return fmt.Errorf("Pack panicked: %v", panicked)
	}
	if perr != nil {
		return fmt.Errorf("Pack (dereferencing, source %s) failed although the link %q leads to an existing %s: %v", strings.TrimPrefix(src, x), target, map[bool]string{true: "directory", false: "file"}[c.DirLink], perr)
	}
	entries, err := tarx.Decode(data)
	if err != nil {
		return fmt.Errorf("slug does not decode: %v", err)
	}
	name := sub + "l"
	found := false
	for _, e := range entries {
		n := strings.TrimSuffix(e.Name, "/")
		if strings.Contains(e.Body, "OUT:textual") {
			return fmt.Errorf("entry %q carries %q: content of a place the link %q does not lead to (the operating system follows it to %s)", e.Name, e.Body, target, "real/a/"+strings.TrimPrefix(target, ups))
		}
		if !c.DirLink && n == name {
			found = true
			if e.Typeflag != tar.TypeReg || e.Body != "OUT:physical-f" || e.Mode&0777 != 0644 {
				return fmt.Errorf("entry %q: type %c mode %o body %q, the link leads to the file real/a/xf (0644, %q)", e.Name, e.Typeflag, e.Mode&0777, e.Body, "OUT:physical-f")
			}
		}
		if c.DirLink && n == name+"/real.txt" {
			found = true
			if e.Body != "OUT:physical" {
				return fmt.Errorf("entry %q carries %q, want %q", e.Name, e.Body, "OUT:physical")
			}
		}
	}
	if !found {
		var names []string
		for _, e := range entries {
			names = append(names, e.Name)
		}
		return fmt.Errorf("the dereferenced link %q (-> %q) is missing from the slug: %v", name, target, names)
	}
	return nil
})

func TestPropDeepLink(t *testing.T) {
	ev.Check(t, subDeep, func(t *rapid.T) DeepCase {
		return DeepCase{Depth: rapid.IntRange(0, 2).Draw(t, "depth"), DirLink: rapid.Bool().Draw(t, "dir"), Direct: rapid.IntRange(0, 3).Draw(t, "direct") == 0, Ignore: rapid.Bool().Draw(t, "ignore")}
	})
}

var _ = os.Getenv
