// C05 — Pack never leaks outside content and always emits a slug Unpack accepts.
package c05

import (
	"archive/tar"
	"fmt"
	"os"
	"path"
	"path/filepath"
	"strings"
	"testing"

	"pgregory.net/rapid"

	"verif/lib/ev"
	"verif/lib/fsx"
	"verif/lib/packcase"
	"verif/lib/pk"
	"verif/lib/refignore"
	"verif/lib/tarx"
)

func TestMain(m *testing.M) { ev.Main(m, "C05") }

var subLeak = ev.Register("leak", checkLeak)

func underAny(p string, roots []string) bool {
	for _, r := range roots {
		if p == r || strings.HasPrefix(p, r+"/") {
			return true
		}
	}
	return false
}

func checkLeak(c packcase.Case) error {
	run, err := packcase.Execute(c)
	if err != nil {
		return fmt.Errorf("harness: %v", err)
	}
	defer run.Cleanup()
	links := run.Links(c)
	var rules []refignore.Rule
	if c.Opts.Ignore {
		rules = refignore.Rules("")
	}
	maybeUnvisited := func(p string) bool {
		if !c.Opts.Ignore {
			return false
		}
		if refignore.Excluded(rules, p, false) {
			return true
		}
		for d := path.Dir(p); d != "." && d != "/"; d = path.Dir(d) {
			if refignore.Excluded(rules, d, false) || refignore.Excluded(rules, d, true) {
				return true
			}
		}
		return false
	}
	var outPaths, climbPaths []string
	mustFail := ""
	hasOut, hasSibling, hasDirLink, hasChain, hasClimb, allRelative := false, false, false, false, false, true
	for _, l := range links {
		if l.Absolute {
			allRelative = false
		}
		if l.Climbs && !l.Outside {
			hasClimb = true
			// dereferenced like an out-of-tree link: what it leads to may hold out-of-tree links of its own
			climbPaths = append(climbPaths, l.Path)
			// in the tree on disk, but not when read at its position in the archive:
			// it cannot be stored as a link, so without dereferencing Pack has to refuse it
			if !l.Allowed && !c.Opts.Deref && !maybeUnvisited(l.Path) && !ev.IsKnown("c05-link-reenters-root-by-name") {
				mustFail = l.Path
			}
		}
		if !l.Outside {
			continue
		}
		hasOut = true
		if strings.Contains(l.Target, "src-evil") {
			hasSibling = true
		}
		if strings.Contains(l.Target, "chain") {
			hasChain = true
		}
		if fi, err := os.Stat(filepath.Join(run.Src, l.Path)); err == nil && fi.IsDir() {
			hasDirLink = true
		}
		outPaths = append(outPaths, l.Path)
		if !l.Allowed && !c.Opts.Deref && !maybeUnvisited(l.Path) {
			mustFail = l.Path
		}
	}
	switch {
	case hasSibling:
		ev.NonTrivial(c, "sibling-prefix-link")
	case hasChain:
		ev.NonTrivial(c, "chained-out-link")
	case hasDirLink:
		ev.NonTrivial(c, "out-of-tree-directory-link")
	case hasOut:
		ev.NonTrivial(c, "out-of-tree-link")
	case hasClimb:
		ev.NonTrivial(c, "link-reentering-root-by-name")
	}
	if run.Panic != nil {
		return fmt.Errorf("Pack panicked: %v", run.Panic)
	}
	if run.Err != nil {
		ev.Label("pack-error")
		if run.Illegal {
			ev.Label("pack-illegal-slug-error")
			if !hasOut && !hasClimb {
				return fmt.Errorf("Pack failed with an illegal-slug error although no link leaves the tree: %v", run.Err)
			}
		}
		return nil
	}
	ev.Label("pack-ok")
	ev.LabelIf(c.Plant != 0, "planted-link-inside-dereferenced-directory")
	if mustFail != "" {
		return fmt.Errorf("link %q leaves the tree, is not allow-listed and dereferencing is off, but Pack succeeded", mustFail)
	}
	if run.DecErr != nil {
		return fmt.Errorf("produced slug does not decode: %v", run.DecErr)
	}
	for _, e := range run.Entries {
		name := strings.TrimSuffix(e.Name, "/")
		// (d) names are clean relative paths without ".."
		if name == "" || path.IsAbs(name) || path.Clean(name) != name || name == ".." || strings.HasPrefix(name, "../") {
			return fmt.Errorf("entry name %q is not a clean relative path inside the archive", e.Name)
		}
		// (a)/(b) outside content
		if strings.Contains(e.Body, "OUT:") {
			if !c.Opts.Deref {
				return fmt.Errorf("entry %q carries content from outside the source directory (%q) although dereferencing is off", e.Name, e.Body)
			}
			if !underAny(name, outPaths) && !underAny(name, climbPaths) {
				return fmt.Errorf("entry %q carries outside content (%q) but is not at or below an out-of-tree link (%v)", e.Name, e.Body, outPaths)
			}
		}
		if e.Typeflag != tar.TypeSymlink {
			continue
		}
		// (c) out-of-tree links are never stored as links - whatever their origin
		// (a link of the tree, or one found inside a dereferenced directory)
		if path.IsAbs(e.Linkname) && !fsx.Inside(run.Src, e.Linkname) {
			allowed := false
			for _, a := range c.Opts.Allow {
				ap := fsx.Subst(a, run.Vars)
				if !filepath.IsAbs(ap) {
					ap = filepath.Join(run.Src, ap)
				}
				if fsx.Inside(ap, filepath.Clean(e.Linkname)) {
					allowed = true
				}
			}
			if !allowed {
				return fmt.Errorf("link entry %q is stored with the absolute out-of-tree target %q", name, e.Linkname)
			}
		}
		for _, l := range links {
			if l.Path == name && l.Outside && !l.Allowed {
				return fmt.Errorf("link %q -> %q leaves the source directory (%s) but was stored as a link", name, e.Linkname, l.Lexical)
			}
		}
		// (d) relative link entries stay inside the archive root at their own position
		if !path.IsAbs(e.Linkname) && packcase.ClimbsAbove(name, e.Linkname) {
			allowed := false
			for _, l := range links {
				if l.Path == name && l.Allowed {
					allowed = true
				}
			}
			if allowed {
				continue
			}
			if ev.IsKnown("c05-link-reenters-root-by-name") {
				ev.Excluded("c05-link-reenters-root-by-name")
				hasClimb = true
				continue
			}
			return fmt.Errorf("link entry %q -> %q rises above the archive root at its own position", name, e.Linkname)
		}
	}
	// (b') a dereferenced out-of-tree link is replaced by a copy of what it points to - the way the
	// operating system follows it, also where a directory link on the way makes ".." mean something else
	if c.Opts.Deref {
		byName := map[string]tarx.Decoded{}
		for _, e := range run.Entries {
			byName[strings.TrimSuffix(e.Name, "/")] = e
		}
		same := func(e tarx.Decoded, phys string) string {
			fi, err := os.Lstat(phys)
			if err != nil || !fi.Mode().IsRegular() || e.Typeflag != tar.TypeReg {
				return ""
			}
			content, err := os.ReadFile(phys)
			if err != nil {
				return ""
			}
			want := string(content)
			if len(want) <= 256 && e.Body != want {
				return fmt.Sprintf("carries %q, the link leads to %s with content %q", e.Body, phys, want)
			}
			if e.BodyLen != int64(len(content)) {
				return fmt.Sprintf("carries %d bytes, the link leads to %s with %d bytes", e.BodyLen, phys, len(content))
			}
			if e.Mode&0777 != int64(fi.Mode().Perm()) {
				return fmt.Sprintf("has mode %o, the link leads to %s with mode %o", e.Mode&0777, phys, fi.Mode().Perm())
			}
			return ""
		}
		for _, l := range links {
			if !l.Outside {
				continue
			}
			res, exists, loop := fsx.Resolve(filepath.Dir(filepath.Join(run.Src, l.Path)), l.Target)
			if loop || !exists {
				continue
			}
			fi, err := os.Lstat(res)
			if err != nil {
				continue
			}
			if e, ok := byName[l.Path]; ok && fi.Mode().IsRegular() {
				if d := same(e, res); d != "" {
					return fmt.Errorf("dereferenced link %q -> %q: entry %s", l.Path, l.Target, d)
				}
				ev.Label("deref-file-compared")
			}
			if fi.IsDir() {
				for name, e := range byName {
					if !strings.HasPrefix(name, l.Path+"/") {
						continue
					}
					phys := filepath.Join(res, strings.TrimPrefix(name, l.Path+"/"))
					if _, err := os.Lstat(phys); err != nil {
						return fmt.Errorf("dereferenced link %q -> %q leads to the directory %s, but the slug has the entry %q, which does not exist there", l.Path, l.Target, res, name)
					}
					if d := same(e, phys); d != "" {
						return fmt.Errorf("dereferenced link %q -> %q: entry %q %s", l.Path, l.Target, name, d)
					}
				}
				ev.Label("deref-dir-compared")
			}
		}
	}
	// (e) Unpack accepts the slug when all links are relative
	nestedAbs := c.Nested && c.Opts.Deref
	if allRelative && !nestedAbs && len(c.Opts.Allow) == 0 && !(hasClimb && ev.IsKnown("c05-link-reenters-root-by-name")) {
		dst := filepath.Join(run.R, "unpacked")
		os.Mkdir(dst, 0755)
		uerr, panicked := pk.Unpack(pk.Opts{}, run.Vars, run.Slug, dst)
		if panicked != nil {
			return fmt.Errorf("Unpack panicked on Pack's output: %v", panicked)
		}
		if uerr != nil {
			return fmt.Errorf("Unpack rejects the slug Pack produced from a tree whose links are all relative: %v", uerr)
		}
		ev.Label("unpack-accepts")
		// ... also when the destination is named through a symlinked parent directory
		os.Symlink(".", filepath.Join(run.R, "via"))
		os.Mkdir(filepath.Join(run.R, "unpacked2"), 0755)
		dst2 := filepath.Join(run.R, "via", "unpacked2")
		uerr, panicked = pk.Unpack(pk.Opts{}, run.Vars, run.Slug, dst2)
		if panicked != nil {
			return fmt.Errorf("Unpack (destination below a symlinked parent) panicked on Pack's output: %v", panicked)
		}
		if uerr != nil {
			return fmt.Errorf("Unpack into a destination below a symlinked parent rejects the slug Pack produced from a tree whose links are all relative: %v", uerr)
		}
	}
	return nil
}

func TestPropLeak(t *testing.T) {
	ev.Check(t, subLeak, func(t *rapid.T) packcase.Case { return packcase.Gen(t, true) })
}

func TestReplay(t *testing.T) { ev.Replay(t) }
func TestKnown(t *testing.T)  { ev.KnownFindings(t) }

var _ = fsx.Inside
