// C06 — source addresses print to strings that parse back to the same address.
package c06

import (
	"fmt"
	"net/url"
	"strings"
	"testing"
	"unicode/utf8"

	"github.com/apparentlymart/go-versions/versions"
	"github.com/hashicorp/go-slug/sourceaddrs"
	regaddr "github.com/hashicorp/terraform-registry-address"
	"pgregory.net/rapid"

	"verif/lib/addrgen"
	"verif/lib/ev"
)

func TestMain(m *testing.M) { ev.Main(m, "C06") }

// roundTrip is the oracle: print, parse with the parser of the value's kind,
// same dynamic type, equal value, same print.
func roundTrip(v any) error {
	switch v := v.(type) {
	case sourceaddrs.RemotePackage:
		s := v.String()
		w, err := sourceaddrs.ParseRemotePackage(s)
		if err != nil {
			return fmt.Errorf("remote package prints as %q, which ParseRemotePackage rejects: %v", s, err)
		}
		if w != v {
			return fmt.Errorf("remote package prints as %q, which parses to a different value (prints %q)", s, w.String())
		}
		if w.String() != s {
			return fmt.Errorf("printing is not idempotent: %q then %q", s, w.String())
		}
		return nil
	case regaddr.ModulePackage:
		s := v.String()
		w, err := sourceaddrs.ParseRegistryPackage(s)
		if err != nil {
			return fmt.Errorf("registry package prints as %q, which ParseRegistryPackage rejects: %v", s, err)
		}
		if w != v {
			return fmt.Errorf("registry package prints as %q, which parses to a different value %q", s, w.String())
		}
		return nil
	case sourceaddrs.RegistrySourceFinal:
		return roundTripFinal(v)
	case sourceaddrs.Source:
		s := v.String()
		// the parser of the value's own kind
		var w sourceaddrs.Source
		var err error
		switch v.(type) {
		case sourceaddrs.RemoteSource:
			w, err = wrapRemote(sourceaddrs.ParseRemoteSource(s))
		case sourceaddrs.RegistrySource:
			w, err = wrapRegistry(sourceaddrs.ParseRegistrySource(s))
		case sourceaddrs.LocalSource:
			w, err = wrapLocal(sourceaddrs.ParseLocalSource(s))
		}
		if err != nil {
			return fmt.Errorf("%T prints as %q, which the parser of its own kind rejects: %v", v, s, err)
		}
		if w != v {
			return fmt.Errorf("%T prints as %q, which parses to a different value (it prints %q; %#v vs %#v)", v, s, w.String(), w, v)
		}
		if w.String() != s {
			return fmt.Errorf("printing is not idempotent: %q then %q", s, w.String())
		}
		if strings.TrimSpace(s) != s {
			// the general parsers refuse surrounding blanks by documented rule
			return nil
		}
		w, err = sourceaddrs.ParseSource(s)
		if err != nil {
			return fmt.Errorf("%T prints as %q, which ParseSource rejects: %v", v, s, err)
		}
		if fmt.Sprintf("%T", w) != fmt.Sprintf("%T", v) {
			return fmt.Errorf("%T prints as %q, which ParseSource reads as a %T", v, s, w)
		}
		if w != v {
			return fmt.Errorf("%T prints as %q, which ParseSource reads as a different value (it prints %q; %#v vs %#v)", v, s, w.String(), w, v)
		}
		if f, ok := v.(sourceaddrs.FinalSource); ok {
			return roundTripFinal(f)
		}
		return nil
	}
	return fmt.Errorf("harness: unsupported value %T", v)
}

func wrapRemote(v sourceaddrs.RemoteSource, err error) (sourceaddrs.Source, error)     { return v, err }
func wrapRegistry(v sourceaddrs.RegistrySource, err error) (sourceaddrs.Source, error) { return v, err }
func wrapLocal(v sourceaddrs.LocalSource, err error) (sourceaddrs.Source, error)       { return v, err }

func roundTripFinal(v sourceaddrs.FinalSource) error {
	s := v.String()
	if strings.TrimSpace(s) != s {
		return nil
	}
	w, err := sourceaddrs.ParseFinalSource(s)
	if err != nil {
		return fmt.Errorf("%T prints as %q, which ParseFinalSource rejects: %v", v, s, err)
	}
	if fmt.Sprintf("%T", w) != fmt.Sprintf("%T", v) {
		return fmt.Errorf("%T prints as %q, which ParseFinalSource reads as a %T", v, s, w)
	}
	if w != v {
		return fmt.Errorf("%T prints as %q, which parses to a different value (it prints %q)", v, s, w.String())
	}
	if w.String() != s {
		return fmt.Errorf("printing is not idempotent: %q then %q", s, w.String())
	}
	return nil
}

// parseAny runs the named parser.
func parseAny(parser, s string) (any, error) {
	switch parser {
	case "source":
		return sourceaddrs.ParseSource(s)
	case "final":
		return sourceaddrs.ParseFinalSource(s)
	case "remote":
		v, err := sourceaddrs.ParseRemoteSource(s)
		if err != nil {
			return nil, err
		}
		return sourceaddrs.Source(v), nil
	case "remotepkg":
		return sourceaddrs.ParseRemotePackage(s)
	case "registry":
		v, err := sourceaddrs.ParseRegistrySource(s)
		if err != nil {
			return nil, err
		}
		return sourceaddrs.Source(v), nil
	case "registrypkg":
		return sourceaddrs.ParseRegistryPackage(s)
	case "local":
		v, err := sourceaddrs.ParseLocalSource(s)
		if err != nil {
			return nil, err
		}
		return sourceaddrs.Source(v), nil
	case "finalregistry":
		return sourceaddrs.ParseFinalRegistrySource(s)
	}
	return nil, fmt.Errorf("harness: unknown parser %q", parser)
}

var parsers = []string{"source", "final", "remote", "remotepkg", "registry", "registrypkg", "local", "finalregistry"}

func interesting(s string) (bool, string) {
	switch {
	case strings.Contains(s, "%"):
		return true, "escape"
	case strings.Contains(s, "?"):
		return true, "query"
	case strings.Contains(s[min(len(s), 8):], "//"):
		return true, "sub-path"
	case strings.HasPrefix(s, "github.com/") || strings.HasPrefix(s, "gitlab.com/"):
		return true, "shorthand"
	case strings.ToLower(s) != s:
		return true, "upper-case"
	case strings.Contains(s, ":8443") || strings.Contains(s, "]:"):
		return true, "port"
	case strings.Contains(s, "@"):
		return true, "version"
	}
	return false, ""
}

type ParseCase struct {
	S      string `json:"s"`
	Parser string `json:"parser"`
}

var subParsed = ev.Register("parsed", func(c ParseCase) error {
	v, err := parseAny(c.Parser, c.S)
	if err != nil {
		ev.Label("rejected:" + c.Parser)
		return nil
	}
	ev.Label("accepted:" + c.Parser)
	if ok, why := interesting(c.S); ok {
		ev.NonTrivial(c, why)
	}
	if e := roundTrip(v); e != nil {
		return fmt.Errorf("%s(%q): %v", c.Parser, c.S, e)
	}
	// everything reachable from the value through the API
	for _, d := range derivedBasics(v) {
		if e := roundTrip(d); e != nil {
			return fmt.Errorf("value derived from %s(%q): %v", c.Parser, c.S, e)
		}
	}
	return nil
})

func derivedBasics(v any) []any {
	var out []any
	switch v := v.(type) {
	case sourceaddrs.RemoteSource:
		out = append(out, v.Package())
	case sourceaddrs.RegistrySource:
		out = append(out, v.Package())
	case sourceaddrs.RegistrySourceFinal:
		out = append(out, sourceaddrs.Source(v.Unversioned()), v.Package())
	}
	return out
}

type DerivedCase struct {
	Base string `json:"base"`
	Op   string `json:"op"` // resolve | versioned | finaladdr | sourceaddr
	Arg  string `json:"arg"`
}

var subDerived = ev.Register("derived", func(c DerivedCase) error {
	c.Base, c.Arg = addrgen.Raw(c.Base), addrgen.Raw(c.Arg)
	var base sourceaddrs.Source
	if c.Op == "afterrefused" {
		// the first address of a package this process sees is one the parser refuses (its sub-path
		// climbs out); what is learnt from it must not stick to the package's good addresses
		if _, err := sourceaddrs.ParseSource(c.Base + c.Arg); err == nil {
			ev.Label("refused-address-accepted")
		}
		ev.NonTrivial(c, "derived:afterrefused")
		for _, good := range []string{c.Base, c.Base + "//modules/a"} {
			v, err := sourceaddrs.ParseSource(good)
			if err != nil {
				return fmt.Errorf("ParseSource(%q) fails after the refused address %q had been seen: %v", good, c.Base+c.Arg, err)
			}
			if e := roundTrip(v); e != nil {
				return fmt.Errorf("after the refused address %q: %v", c.Base+c.Arg, e)
			}
			if rs, ok := v.(sourceaddrs.RegistrySource); ok {
				if e := roundTripFinal(rs.Versioned(versions.MustParseVersion("1.2.3"))); e != nil {
					return fmt.Errorf("after the refused address %q: %v", c.Base+c.Arg, e)
				}
			}
		}
		return nil
	}
	if c.Op == "make" {
		// MakeRemoteSource(type, URL, sub-path): Base is the URL text, Arg is "type|sub-path"
		typ, sub, _ := strings.Cut(c.Arg, "|")
		u, err := url.Parse(c.Base)
		if err != nil {
			ev.Label("base-rejected")
			return nil
		}
		rs, err := sourceaddrs.MakeRemoteSource(typ, u, sub)
		if err != nil {
			ev.Label("make-rejected")
			return nil
		}
		if strings.ContainsAny(rs.SubPath(), "?#") && ev.IsKnown("c06-subpath-query-chars") {
			ev.Excluded("c06-subpath-query-chars")
			return nil
		}
		ev.NonTrivial(c, "derived:make")
		if e := roundTrip(sourceaddrs.Source(rs)); e != nil {
			return fmt.Errorf("MakeRemoteSource(%q, %q, %q): %v", typ, c.Base, sub, e)
		}
		return nil
	}
	if c.Op != "resolvefinal" {
		var err error
		base, err = sourceaddrs.ParseSource(c.Base)
		if err != nil {
			ev.Label("base-rejected")
			return nil
		}
	}
	var d any
	switch c.Op {
	case "resolve":
		rel, err := sourceaddrs.ParseLocalSource(c.Arg)
		if err != nil {
			ev.Label("rel-rejected")
			return nil
		}
		r, err := sourceaddrs.ResolveRelativeSource(base, rel)
		if err != nil {
			ev.Label("resolve-error")
			return nil
		}
		d = r
	case "resolvefinal":
		fb, err := sourceaddrs.ParseFinalSource(c.Base)
		if err != nil {
			ev.Label("base-rejected")
			return nil
		}
		rel, err := sourceaddrs.ParseLocalSource(c.Arg)
		if err != nil {
			ev.Label("rel-rejected")
			return nil
		}
		r, err := sourceaddrs.ResolveRelativeFinalSource(fb, rel)
		if err != nil {
			ev.Label("resolve-error")
			return nil
		}
		if sp, ok := r.(interface{ SubPath() string }); ok && strings.ContainsAny(sp.SubPath(), "?#") && ev.IsKnown("c06-subpath-query-chars") {
			ev.Excluded("c06-subpath-query-chars")
			return nil
		}
		ev.NonTrivial(c, "derived:"+c.Op)
		if e := roundTripFinal(r); e != nil {
			return fmt.Errorf("ResolveRelativeFinalSource(%q, %q): %v", c.Base, c.Arg, e)
		}
		return nil
	case "versioned":
		rs, ok := base.(sourceaddrs.RegistrySource)
		if !ok {
			return nil
		}
		ver, err := versions.ParseVersion(c.Arg)
		if err != nil {
			return nil
		}
		d = rs.Versioned(ver)
	case "finaladdr":
		rs, ok := base.(sourceaddrs.RegistrySource)
		if !ok {
			return nil
		}
		realSrc, err := sourceaddrs.ParseRemoteSource(c.Arg)
		if err != nil {
			ev.Label("real-rejected")
			return nil
		}
		d = sourceaddrs.Source(rs.FinalSourceAddr(realSrc))
	case "sourceaddr":
		rs, ok := base.(sourceaddrs.RemoteSource)
		if !ok || !sourceaddrs.ValidSubPath(c.Arg) {
			return nil
		}
		d = sourceaddrs.Source(rs.Package().SourceAddr(c.Arg))
	}
	if d == nil {
		return nil
	}
	if sp, ok := d.(interface{ SubPath() string }); ok && strings.ContainsAny(sp.SubPath(), "?#") && ev.IsKnown("c06-subpath-query-chars") {
		ev.Excluded("c06-subpath-query-chars")
		return nil
	}
	ev.NonTrivial(c, "derived:"+c.Op)
	if e := roundTrip(d); e != nil {
		return fmt.Errorf("%s(%q, %q): %v", c.Op, c.Base, c.Arg, e)
	}
	return nil
})

type PairCase struct {
	A      string `json:"a"`
	B      string `json:"b"`
	Parser string `json:"parser"`
}

var subPairs = ev.Register("pairs", func(c PairCase) error {
	v, err1 := parseAny(c.Parser, c.A)
	w, err2 := parseAny(c.Parser, c.B)
	if err1 != nil || err2 != nil {
		ev.Label("pair-rejected")
		return nil
	}
	vs := v.(fmt.Stringer).String()
	ws := w.(fmt.Stringer).String()
	if c.A != c.B {
		ev.NonTrivial(c, "two-spellings")
	}
	if (v == w) != (vs == ws) {
		return fmt.Errorf("%s(%q) and %s(%q): values equal = %v, but they print %q and %q", c.Parser, c.A, c.Parser, c.B, v == w, vs, ws)
	}
	ev.LabelIf(v == w && c.A != c.B, "equal-under-different-spelling")
	return nil
})

func genString(t *rapid.T, label string) string {
	kind := rapid.SampledFrom(addrgen.Kinds).Draw(t, label+"kind")
	s := addrgen.Valid(t, kind)
	if rapid.IntRange(0, 9).Draw(t, label+"mutate?") < 4 {
		s = addrgen.Mutate(t, s)
	}
	return s
}

func TestPropParsed(t *testing.T) {
	ev.Check(t, subParsed, func(t *rapid.T) ParseCase {
		return ParseCase{S: genString(t, ""), Parser: rapid.SampledFrom(parsers).Draw(t, "parser")}
	})
}

func TestPropDerived(t *testing.T) {
	ev.Check(t, subDerived, func(t *rapid.T) DerivedCase {
		c := DerivedCase{Op: rapid.SampledFrom([]string{"resolve", "resolve", "resolvefinal", "versioned", "finaladdr", "sourceaddr", "make", "afterrefused"}).Draw(t, "op")}
		switch c.Op {
		case "afterrefused":
			// a package name no earlier case has used
			c.Base = rapid.SampledFrom([]string{"example.com/", "", "registry.terraform.io/"}).Draw(t, "rhost") + "ns" + rapid.StringMatching("[a-z]{10}").Draw(t, "uniq") + "/name/aws"
			c.Arg = rapid.SampledFrom([]string{"//../x", "//a/../../x", "@1.0.0//../x", "//./x", "//a//b"}).Draw(t, "refused")
		case "make":
			c.Base = rapid.SampledFrom([]string{"https://example.com/repo.git", "https://example.com/pkg.tgz", "ssh://git@example.com/repo.git", "https://example.com/dl/?archive=tgz",
				"https://example.com/a%20b/pkg.tar.gz?x=1", "https://EXAMPLE.com:443/Repo.git?ref=v1", "https://example.com/pkg.zip?archive=tgz&checksum=1", "http://example.com/repo.git", "https://example.com", "https://[2001:db8::1]:8443/x.tgz", "https://[::1]/pkg.tgz?sig=ab::cd"}).Draw(t, "url")
			c.Arg = rapid.SampledFrom([]string{"git", "https", "http", "Git", "GIT", "HTTPS", "Https", "hg", "", "git::", " git"}).Draw(t, "type") + "|" +
				rapid.SampledFrom([]string{"", "", "modules/a", "x", "with space", "a//b", "../up", "."}).Draw(t, "makesub")
		case "resolve":
			c.Base = addrgen.Valid(t, rapid.SampledFrom([]string{"local", "registry", "git", "archive", "shorthand"}).Draw(t, "bk"))
			c.Arg = relArg(t)
			if rapid.IntRange(0, 15).Draw(t, "edgespace?") == 0 {
				// stepping up to a directory whose name ends in a space: the result ends in that space
				c.Base = rapid.SampledFrom([]string{"./mods/trail /b", "git::https://example.com/repo.git//trail /b", "hashicorp/consul/aws//modules/trail /b", "https://example.com/pkg.tgz//x/tab\t/b"}).Draw(t, "edgebase")
				c.Arg = "../"
			}
		case "resolvefinal":
			c.Base = addrgen.Valid(t, rapid.SampledFrom([]string{"local", "registryfinal", "git", "archive"}).Draw(t, "bk"))
			c.Arg = relArg(t)
			if rapid.IntRange(0, 15).Draw(t, "edgespace?") == 0 {
				c.Base = rapid.SampledFrom([]string{"./mods/trail /b", "git::https://example.com/repo.git//trail /b", "hashicorp/consul/aws@1.0.0//modules/trail /b"}).Draw(t, "edgebase")
				c.Arg = "../"
			}
		case "versioned":
			c.Base = addrgen.Valid(t, "registry")
			c.Arg = rapid.SampledFrom([]string{"1.0.0", "0.0.1", "1.2.3-beta", "1.2.3+meta", "2.0.0-rc.1+b.7", "0.0.0"}).Draw(t, "ver")
		case "finaladdr":
			c.Base = addrgen.Valid(t, "registry")
			c.Arg = addrgen.Valid(t, rapid.SampledFrom([]string{"git", "archive", "shorthand"}).Draw(t, "rk"))
		case "sourceaddr":
			c.Base = addrgen.Valid(t, rapid.SampledFrom([]string{"git", "archive", "shorthand"}).Draw(t, "bk"))
			c.Arg = addrgen.GenSubPath(t, "sub", 35)
		}
		return c
	})
}

func relArg(t *rapid.T) string {
	ups := rapid.IntRange(0, 3).Draw(t, "relups")
	tail := ""
	if rapid.IntRange(0, 3).Draw(t, "reltail?") > 0 {
		tail = addrgen.GenSubPath(t, "rel", 35)
	}
	if ups == 0 {
		return "./" + tail
	}
	s := strings.TrimSuffix(strings.Repeat("../", ups), "/")
	if tail != "" {
		return s + "/" + tail
	}
	if s == ".." {
		return "../"
	}
	return s
}

func TestPropPairs(t *testing.T) {
	ev.Check(t, subPairs, func(t *rapid.T) PairCase {
		kind := rapid.SampledFrom(addrgen.Kinds).Draw(t, "kind")
		a := addrgen.Valid(t, kind)
		var b string
		switch rapid.IntRange(0, 3).Draw(t, "how") {
		case 0:
			b = a
		case 1:
			b = addrgen.Mutate(t, a)
		case 2:
			b = strings.NewReplacer("https://", "HTTPS://", "git::", "GIT::", "ssh://", "SSH://", "archive=tar.gz", "archive=tgz").Replace(a)
		default:
			b = addrgen.Valid(t, kind)
		}
		return PairCase{A: a, B: b, Parser: rapid.SampledFrom([]string{"source", "final", "remote", "registry"}).Draw(t, "parser")}
	})
}

// FuzzSourceRoundTrip: coverage-guided strings through every parser.
func FuzzSourceRoundTrip(f *testing.F) {
	for _, s := range []string{"./a/b", "../", "hashicorp/subnets/cidr//blah", "example.com/foo/bar/baz@1.0.0//beep", "git::https://github.com/hashicorp/go-slug.git//blah/blah?ref=main",
		"github.com/hashicorp/go-slug/bleep", "https://example.com/foo.tar.gz//bleep/bloop?something=anything", "https://example.com/foo?archive=tar.gz", "git::ssh://github.com/hashicorp/go-slug.git",
		"テラフォーム.example.com/bleep/bloop/blorp", "git::https://example.com/r.git//a%20b", "git::https:opaque//sub", "https://example.com/a%2F%2Fb.tgz", "git::https://h/r.git#a//b"} {
		f.Add(s)
	}
	f.Fuzz(func(t *testing.T, s string) {
		if !utf8.ValidString(s) {
			t.Skip("the property speaks of valid UTF-8 strings")
		}
		for _, p := range parsers {
			c := ParseCase{S: s, Parser: p}
			if err := subParsed.Run(c); err != nil {
				ev.FuzzFail("parsed", c, err)
				t.Fatalf("%v", err)
			}
		}
	})
}

func TestReplay(t *testing.T) { ev.Replay(t) }
func TestKnown(t *testing.T)  { ev.KnownFindings(t) }
