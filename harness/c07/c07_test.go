// C07 — accepted remote addresses always satisfy the documented transport policy.
package c07

import (
	"fmt"
	"net/url"
	"strings"
	"testing"
	"unicode/utf8"

	"github.com/hashicorp/go-slug/sourceaddrs"
	"pgregory.net/rapid"

	"verif/lib/addrgen"
	"verif/lib/ev"
)

func TestMain(m *testing.M) { ev.Main(m, "C07") }

// every route by which a string can become a remote address
func remoteVia(route, s string) (sourceaddrs.RemoteSource, bool, error) {
	switch route {
	case "ParseSource":
		v, err := sourceaddrs.ParseSource(s)
		if err != nil {
			return sourceaddrs.RemoteSource{}, false, err
		}
		r, ok := v.(sourceaddrs.RemoteSource)
		return r, ok, nil
	case "ParseFinalSource":
		v, err := sourceaddrs.ParseFinalSource(s)
		if err != nil {
			return sourceaddrs.RemoteSource{}, false, err
		}
		r, ok := v.(sourceaddrs.RemoteSource)
		return r, ok, nil
	case "ParseRemoteSource":
		v, err := sourceaddrs.ParseRemoteSource(s)
		return v, err == nil, err
	case "ParseRemotePackage":
		p, err := sourceaddrs.ParseRemotePackage(s)
		if err != nil {
			return sourceaddrs.RemoteSource{}, false, err
		}
		return p.SourceAddr(""), true, nil
	}
	panic("route")
}

var routes = []string{"ParseSource", "ParseFinalSource", "ParseRemoteSource", "ParseRemotePackage"}

type StringCase struct {
	S     string `json:"s"`
	Class string `json:"class"` // valid | violation:<rule> | arbitrary
}

var subStrings = ev.Register("strings", func(c StringCase) error {
	for _, route := range routes {
		v, isRemote, err := remoteVia(route, c.S)
		switch {
		case c.Class == "valid":
			if route == "ParseRemotePackage" && strings.Contains(strings.SplitN(c.S, "?", 2)[0][8:], "//") {
				continue // a package address may not have a sub-path
			}
			if route == "ParseRemotePackage" && (strings.HasPrefix(c.S, "github.com/") || strings.HasPrefix(c.S, "gitlab.com/")) && strings.Count(c.S, "/") > 2 {
				continue
			}
			if err != nil {
				return fmt.Errorf("%s rejects %q, which follows the documented grammar: %v", route, c.S, err)
			}
			if !isRemote {
				if strings.HasPrefix(c.S, "gitlab.com/") && strings.Count(c.S, "/") == 3 {
					// documented: gitlab.com also hosts a module registry, a four-part
					// address is a registry address there
					ev.Label("gitlab-four-parts-is-registry")
					continue
				}
				return fmt.Errorf("%s reads the remote address %q as a different kind", route, c.S)
			}
		case strings.HasPrefix(c.Class, "violation:"):
			if err == nil && isRemote {
				return fmt.Errorf("%s accepts %q although it breaks the rule %q", route, c.S, strings.TrimPrefix(c.Class, "violation:"))
			}
		}
		if err == nil && isRemote {
			ev.Label("accepted:" + c.Class)
			if perr := addrgen.Policy(v); perr != nil {
				return fmt.Errorf("%s(%q) accepted an address that violates the transport policy: %v (prints %q)", route, c.S, perr, v.String())
			}
		}
	}
	if c.Class != "valid" || strings.ToLower(c.S) != c.S || strings.HasPrefix(c.S, "git") && !strings.HasPrefix(c.S, "git::") {
		ev.NonTrivial(c, strings.SplitN(c.Class, ":", 2)[0])
	}
	return nil
})

// MakeRemoteSource route: (type, *url.URL edited field-wise, sub-path)
type MakeCase struct {
	Type    string `json:"type"`
	URL     string `json:"url"`    // parsed with url.Parse
	User    string `json:"user"`   // "" none | "u" | "u:p" | ":p"
	Scheme  string `json:"scheme"` // "" keep
	Query   string `json:"query"`  // "-" keep
	Path    string `json:"path"`   // "-" keep
	Sub     string `json:"sub"`
	Force   bool   `json:"force_query,omitempty"` // set URL.ForceQuery
	Relpath bool   `json:"rel_path,omitempty"`    // drop the leading slash of URL.Path
	Opaque  string `json:"opaque,omitempty"`      // set URL.Opaque (a hand-built value; url.Parse never sets it together with Host)
	Frag    string `json:"frag,omitempty"`        // set URL.Fragment
}

var subMake = ev.Register("make", func(c MakeCase) error {
	u, err := url.Parse(c.URL)
	if err != nil {
		ev.Label("url-unparseable")
		return nil
	}
	switch {
	case c.User == "":
	case strings.Contains(c.User, ":"):
		up := strings.SplitN(c.User, ":", 2)
		u.User = url.UserPassword(up[0], up[1])
	default:
		u.User = url.User(c.User)
	}
	if c.Scheme != "" {
		u.Scheme = c.Scheme
	}
	if c.Query != "-" {
		u.RawQuery = c.Query
	}
	if c.Path != "-" {
		u.Path = c.Path
		u.RawPath = ""
	}
	if c.Force {
		u.ForceQuery = true
	}
	if c.Relpath {
		u.Path = strings.TrimPrefix(u.Path, "/")
		u.RawPath = ""
	}
	if c.Opaque != "" {
		u.Opaque = c.Opaque
	}
	if c.Frag != "" {
		u.Fragment = c.Frag
	}
	before := *u
	v, err := sourceaddrs.MakeRemoteSource(c.Type, u, c.Sub)
	if *u != before && !(u.User != nil && before.User != nil && u.User.String() == before.User.String()) {
		return fmt.Errorf("MakeRemoteSource modified the caller's URL: %v -> %v", before.String(), u.String())
	}
	ev.NonTrivial(c, "constructor-route")
	if err != nil {
		ev.Label("make-rejected")
		if typeMatches(c) {
			return fmt.Errorf("MakeRemoteSource(%q, %q, %q) rejects an address assembled from valid parts: %v", c.Type, c.URL, c.Sub, err)
		}
		return nil
	}
	ev.Label("make-accepted")
	if perr := addrgen.Policy(v); perr != nil {
		return fmt.Errorf("MakeRemoteSource(%q, %q, %q) accepted an address that violates the transport policy: %v", c.Type, u.String(), c.Sub, perr)
	}
	// and what it hands out must be a value the parsers agree with (printing of
	// sub-paths with '?' or '#' is C06's business)
	if strings.ContainsAny(c.Sub, "?#") {
		return nil
	}
	w, perr := sourceaddrs.ParseRemoteSource(v.String())
	if perr != nil {
		return fmt.Errorf("MakeRemoteSource(%q, %q, %q) = %q, which ParseRemoteSource rejects: %v", c.Type, u.String(), c.Sub, v.String(), perr)
	}
	if w != v {
		return fmt.Errorf("MakeRemoteSource(%q, %q, %q) = %q, which parses to a different value %q", c.Type, u.String(), c.Sub, v.String(), w.String())
	}
	return nil
})

// typeMatches: an unedited case whose source type suits the URL it was generated with.
func typeMatches(c MakeCase) bool {
	if c.Relpath {
		return false
	}
	if c.User != "" || c.Scheme != "" || c.Query != "-" || c.Path != "-" || c.Opaque != "" || c.Frag != "" {
		return false
	}
	switch c.Sub {
	case "", "modules/vpc", "a", "with space":
	default:
		return false
	}
	archive := strings.Contains(c.URL, ".tgz") || strings.Contains(c.URL, ".tar.gz") || strings.Contains(c.URL, "archive=")
	switch c.Type {
	case "git":
		return !archive && !strings.Contains(c.URL, "?") || (!archive && strings.Contains(c.URL, "?ref="))
	case "https", "http":
		return archive && strings.HasPrefix(c.URL, "https://")
	}
	return false
}

// derived: resolving a relative path against an accepted remote address keeps the policy
type ResolveCase struct {
	Base string `json:"base"`
	Rel  string `json:"rel"`
}

var subResolve = ev.Register("resolved", func(c ResolveCase) error {
	base, err := sourceaddrs.ParseRemoteSource(c.Base)
	if err != nil {
		return nil
	}
	rel, err := sourceaddrs.ParseLocalSource(c.Rel)
	if err != nil {
		return nil
	}
	r, err := sourceaddrs.ResolveRelativeSource(base, rel)
	if err != nil {
		return nil
	}
	ev.NonTrivial(c, "derived-by-resolution")
	if perr := addrgen.Policy(r.(sourceaddrs.RemoteSource)); perr != nil {
		return fmt.Errorf("ResolveRelativeSource(%q, %q) = %q violates the transport policy: %v", c.Base, c.Rel, r.String(), perr)
	}
	return nil
})

func caseFlip(t *rapid.T, s string) string {
	// spelling variations the parser documents as equivalent: type and scheme letter case
	if rapid.Bool().Draw(t, "flip") {
		s = strings.NewReplacer("git::", rapid.SampledFrom([]string{"GIT::", "Git::", "gIt::"}).Draw(t, "T"), "https://", rapid.SampledFrom([]string{"HTTPS://", "Https://"}).Draw(t, "S"),
			"ssh://", "SSH://", "http::", "HTTP::").Replace(s)
	}
	return s
}

func TestPropStrings(t *testing.T) {
	ev.Check(t, subStrings, func(t *rapid.T) StringCase {
		switch rapid.IntRange(0, 9).Draw(t, "class") {
		case 0, 1, 2:
			s := addrgen.Valid(t, rapid.SampledFrom([]string{"git", "archive", "shorthand"}).Draw(t, "kind"))
			return StringCase{S: caseFlip(t, s), Class: "valid"}
		case 3, 4, 5:
			s, rule := addrgen.Violation(t)
			return StringCase{S: caseFlip(t, s), Class: "violation:" + rule}
		default:
			s := addrgen.Valid(t, rapid.SampledFrom([]string{"git", "archive", "shorthand"}).Draw(t, "kind"))
			return StringCase{S: addrgen.Mutate(t, s), Class: "arbitrary"}
		}
	})
}

func TestPropMake(t *testing.T) {
	ev.Check(t, subMake, func(t *rapid.T) MakeCase {
		kind := rapid.SampledFrom([]string{"git", "archive"}).Draw(t, "kind")
		base := addrgen.Valid(t, kind)
		base = strings.TrimPrefix(strings.TrimPrefix(base, "git::"), "http::")
		if i := strings.Index(base[8:], "//"); i >= 0 {
			// drop the sub-path from the URL text
			rest := base[8+i:]
			q := ""
			if j := strings.Index(rest, "?"); j >= 0 {
				q = rest[j:]
			}
			base = base[:8+i] + q
		}
		c := MakeCase{URL: base, Query: "-", Path: "-"}
		c.Type = "git"
		if kind == "archive" {
			c.Type = rapid.SampledFrom([]string{"https", "http"}).Draw(t, "atype")
		}
		c.Sub = rapid.SampledFrom([]string{"", "modules/vpc", "a", "with space"}).Draw(t, "goodsub")
		// URL structs built by hand differ from parsed ones in representation only
		c.Force = rapid.IntRange(0, 5).Draw(t, "force") == 0
		c.Relpath = rapid.IntRange(0, 5).Draw(t, "relpath") == 0
		// edit one field (sometimes two, sometimes none)
		nEdits := rapid.SampledFrom([]int{0, 1, 1, 1, 1, 2}).Draw(t, "nedits")
		for i := 0; i < nEdits; i++ {
			switch rapid.SampledFrom([]string{"type", "user", "scheme", "query", "path", "sub", "opaque", "frag", "query"}).Draw(t, "edit") {
			case "opaque":
				c.Opaque = rapid.SampledFrom([]string{"//user:secret@example.com/repo.git", "//example.com/repo.git?sshkey=x", "//example.com/pkg.zip", "/no/host.tgz", "opaque"}).Draw(t, "opaque")
			case "frag":
				c.Frag = rapid.SampledFrom([]string{"frag", "a//b", "?x"}).Draw(t, "frag")
			case "type":
				c.Type = rapid.SampledFrom([]string{"git", "https", "http", "GIT", "Https", "hg", "", "s3", "ssh"}).Draw(t, "type")
			case "user":
				c.User = rapid.SampledFrom([]string{"user", "user:pw", ":pw", "git"}).Draw(t, "user")
			case "scheme":
				c.Scheme = rapid.SampledFrom([]string{"http", "git", "HTTPS", "ssh", "file", "ftp", "https"}).Draw(t, "scheme")
			case "query":
				c.Query = rapid.SampledFrom([]string{"", "ref=main", "ref=a&ref=b", "depth=1", "checksum=md5:1", "archive=zip", "archive=tgz", "archive=tar.gz", "archive=tgz&archive=tgz", "ref=a;depth=1",
					"%zz", "sshkey=x&ref=y", "checksum=1;x=2", "archive=tgz;checksum=1", "ref=v1&Ref=v2", "x=1", "a=b#c", "ref=v1#frag", "archive=tgz#x", "archive=tgz&checksum=sha256:abc"}).Draw(t, "query")
			case "path":
				c.Path = rapid.SampledFrom([]string{"/repo.git", "/a//b.tgz", "/pkg.zip", "", "/x.tar.gz", "/with space.tgz", "/a/../b.tgz", "//x.tgz"}).Draw(t, "path")
			case "sub":
				c.Sub = rapid.SampledFrom([]string{"a/./b", "a/../b", "../x", "a//b", "/abs", "a/", ".", "q?x", "..", "a/.."}).Draw(t, "sub")
			}
		}
		return c
	})
}

func TestPropResolved(t *testing.T) {
	ev.Check(t, subResolve, func(t *rapid.T) ResolveCase {
		base := addrgen.Valid(t, rapid.SampledFrom([]string{"git", "archive", "shorthand"}).Draw(t, "kind"))
		ups := rapid.IntRange(0, 3).Draw(t, "ups")
		rel := "./" + addrgen.GenSubPath(t, "rel", 30)
		if ups > 0 {
			rel = strings.Repeat("../", ups) + addrgen.GenSubPath(t, "rel", 30)
		}
		return ResolveCase{Base: base, Rel: rel}
	})
}

// FuzzPolicy: coverage-guided strings; whatever any parser accepts as a remote
// address must satisfy the transport policy.
func FuzzPolicy(f *testing.F) {
	for _, s := range []string{"git::https://example.com/repo.git//sub?ref=main", "git::ssh://git@example.com/repo.git", "https://example.com/pkg.tgz?archive=tgz",
		"https://example.com/dl?archive=tgz&checksum=1", "github.com/hashicorp/go-slug//sub", "gitlab.com/a/b", "git::http://example.com/r.git", "http::https://example.com/a.zip",
		"git::https://user:pw@example.com/r.git", "https://example.com/a.tgz#frag", "git::https:opaque", "GIT::HTTPS://EXAMPLE.com/R.git", "https://example.com/a?archive=&archive=zip",
		"git::file:///tmp/r.git", "s3::https://bucket/key.tgz", "git::https://example.com///r.git"} {
		f.Add(s)
	}
	f.Fuzz(func(t *testing.T, s string) {
		if !utf8.ValidString(s) {
			t.Skip("the property speaks of valid UTF-8 strings")
		}
		c := StringCase{S: s, Class: "arbitrary"}
		if err := subStrings.Run(c); err != nil {
			ev.FuzzFail("strings", c, err)
			t.Fatalf("%v", err)
		}
	})
}

func TestReplay(t *testing.T) { ev.Replay(t) }
func TestKnown(t *testing.T)  { ev.KnownFindings(t) }
