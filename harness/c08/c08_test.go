// C08 — a finished bundle contains everything that was added or discovered.
package c08

import (
	"fmt"
	"os"
	"path/filepath"
	"strings"
	"testing"
	"unicode/utf8"

	"github.com/apparentlymart/go-versions/versions"
	"github.com/hashicorp/go-slug/sourceaddrs"
	"pgregory.net/rapid"

	"verif/lib/ev"
	"verif/lib/fsx"
	"verif/lib/world"
)

func TestMain(m *testing.M) { ev.Main(m, "C08") }

const nFinders = 2

var subComplete = ev.Register("complete", checkComplete)

func checkComplete(w world.World) error {
	exp := world.Reference(w, nFinders)
	if exp.Error != "" {
		ev.Label("reference-predicts-error")
		return nil // C12 judges failing builds
	}
	if exp.Ambiguous {
		ev.Label("ambiguous-twins")
		return nil
	}
	arena, cleanup := fsx.Scratch("c08-")
	defer cleanup()
	run, err := world.Execute(w, nFinders, world.TargetDir(arena), nil)
	if err != nil {
		return fmt.Errorf("harness: %v", err)
	}
	nPk := len(exp.Packages)
	hasReg := len(exp.Selections) > 0
	hasRel, hasAbsent := false, false
	for a := range exp.Analysed {
		src, _ := sourceaddrs.ParseRemoteSource(a.Source)
		if rp := findRemote(w, src.Package().String()); rp != nil && !rp.ModuleExists(src.SubPath()) {
			hasAbsent = true
		}
	}
	for _, p := range w.Remotes {
		for _, m := range p.Modules {
			for _, ds := range m.Deps {
				for _, d := range ds {
					if d.Kind == "local" {
						hasRel = true
					}
				}
			}
		}
	}
	if nPk >= 2 && (hasReg || hasRel || hasAbsent || len(exp.Analysed) > nPk) {
		switch {
		case hasReg:
			ev.NonTrivial(w, "registry-hop")
		case hasRel:
			ev.NonTrivial(w, "relative-dependency")
		default:
			ev.NonTrivial(w, "multi-package-closure")
		}
	}
	for _, c := range run.Calls {
		if c.Panicked != nil {
			return fmt.Errorf("Add call %+v panicked: %v", c.Call, c.Panicked)
		}
		if c.Diags.HasErrors() {
			var msgs []string
			for _, d := range c.Diags {
				msgs = append(msgs, world.DiagString(d))
			}
			return fmt.Errorf("fault-free build whose closure is well defined reported errors in %+v: %s", c.Call, strings.Join(msgs, " || "))
		}
	}
	run.Close()
	if run.ClosePanic != nil || run.CloseErr != nil {
		return fmt.Errorf("Close failed after a build without errors: %v %v", run.CloseErr, run.ClosePanic)
	}
	b := run.Bundle
	root, _ := filepath.EvalSymlinks(run.Target)
	// every analysed source (added or discovered) can be looked up
	for a := range exp.Analysed {
		src, err := sourceaddrs.ParseRemoteSource(a.Source)
		if err != nil {
			return fmt.Errorf("harness: %v", err)
		}
		p, err := b.LocalPathForRemoteSource(src)
		if err != nil {
			return fmt.Errorf("source %s (added or discovered through dependencies) is not in the bundle: %v", a.Source, err)
		}
		if e := checkPath(w, root, src, p); e != nil {
			return e
		}
		if p2, err := b.LocalPathForSource(src); err != nil || p2 != p {
			return fmt.Errorf("LocalPathForSource(%s) = %q, %v; LocalPathForRemoteSource gave %q", a.Source, p2, err, p)
		}
	}
	// registry sources resolve to the same place as the address the registry named
	for i, c := range w.Script {
		if c.Kind == "remote" || exp.CallSources[i] == "" {
			continue
		}
		rs, _ := sourceaddrs.ParseRegistrySource(c.Addr)
		var sel *world.Selection
		for k := range exp.Selections {
			if exp.Selections[k].Pkg == rs.Package().String() {
				set, _ := world.AllowedSet(c.Allowed)
				if c.Kind == "final" {
					set, _ = world.AllowedSet(c.Version)
				}
				v, _ := versions.ParseVersion(exp.Selections[k].Version)
				maxima, _ := world.Select(*regOf(w, rs.Package().String()), set)
				for _, m := range maxima {
					mv, _ := versions.ParseVersion(m.V)
					if mv.Same(v) {
						sel = &exp.Selections[k]
					}
				}
			}
		}
		if sel == nil {
			return fmt.Errorf("harness: no selection recorded for %+v", c)
		}
		v, _ := versions.ParseVersion(sel.Version)
		got, err := b.LocalPathForRegistrySource(rs, v.Comparable())
		if err != nil {
			got, err = b.LocalPathForRegistrySource(rs, v)
		}
		if err != nil {
			return fmt.Errorf("registry source %s at the selected version %s is not in the bundle: %v", c.Addr, sel.Version, err)
		}
		want, _ := sourceaddrs.ParseRemoteSource(exp.CallSources[i])
		wantPath, err := b.LocalPathForRemoteSource(want)
		if err != nil || wantPath != got {
			return fmt.Errorf("registry source %s resolves to %q, but the remote address the registry named joined with the sub-path (%s) is at %q (%v)", c.Addr, got, want, wantPath, err)
		}
		// the general lookup agrees with the specific ones, for the final registry form as well
		for _, fv := range []versions.Version{v, v.Comparable()} {
			if gotG, err := b.LocalPathForSource(rs.Versioned(fv)); err == nil && gotG != got {
				return fmt.Errorf("LocalPathForSource(%s@%s) = %q, LocalPathForRegistrySource = %q", c.Addr, fv, gotG, got)
			}
		}
		if gotF, err := b.LocalPathForFinalRegistrySource(rs.Versioned(v.Comparable())); err == nil && gotF != got {
			return fmt.Errorf("LocalPathForFinalRegistrySource(%s@%s) = %q, LocalPathForRegistrySource = %q", c.Addr, v, gotF, got)
		}
	}
	// metadata supplied by fetcher and registry is retrievable unchanged
	for pkg := range exp.Packages {
		rp := findRemote(w, pkg)
		pa, _ := sourceaddrs.ParseRemotePackage(rp.Addr)
		m := b.RemotePackageMeta(pa)
		wantID, wantMsg := "", ""
		if rp.Meta != nil {
			wantID, wantMsg = rp.Meta.CommitID, world.RawText(rp.Meta.Message)
		}
		gotID, gotMsg := "", ""
		if m != nil {
			gotID, gotMsg = m.GitCommitID(), m.GitCommitMessage()
		}
		if gotID != wantID || gotMsg != wantMsg {
			if gotID == wantID && !utf8.ValidString(wantMsg) && ev.IsKnown("c08-meta-invalid-utf8-altered") {
				// the JSON manifest cannot carry bytes that are not valid UTF-8
				ev.Excluded("c08-meta-invalid-utf8-altered")
				continue
			}
			if wantID == "" && wantMsg != "" && ev.IsKnown("c08-meta-message-without-commit") {
				ev.Excluded("c08-meta-message-without-commit")
				continue
			}
			return fmt.Errorf("package %s: metadata (%q, %q) retrieved from the bundle, fetcher supplied (%q, %q)", pkg, gotID, gotMsg, wantID, wantMsg)
		}
	}
	pkgsInBundle := map[string]bool{}
	for _, p := range b.RemotePackages() {
		pkgsInBundle[p.String()] = true
	}
	for pkg := range exp.Packages {
		if !pkgsInBundle[pkg] {
			return fmt.Errorf("RemotePackages() does not list %s", pkg)
		}
	}
	for _, sel := range exp.Selections {
		rpa, _ := sourceaddrs.ParseRegistryPackage(sel.Pkg)
		v, _ := versions.ParseVersion(sel.Version)
		// The reference names one newest allowed version; offered versions that differ
		// from it in build metadata only have the same precedence and are equally good
		// selections. One of them has to be in the bundle - with exactly the source
		// address and deprecation note the registry attached to THAT version.
		rp := regOf(w, sel.Pkg)
		if rp == nil {
			return fmt.Errorf("harness: no registry package %s", sel.Pkg)
		}
		found := false
		for _, rv := range rp.Versions {
			cv, err := versions.ParseVersion(rv.V)
			if err != nil || !cv.Same(v) {
				continue
			}
			got, ok := b.RegistryPackageSourceAddr(rpa, cv)
			if !ok {
				continue
			}
			found = true
			if want, _ := sourceaddrs.ParseRemoteSource(rv.Real); got != want {
				return fmt.Errorf("RegistryPackageSourceAddr(%s, %s) = %s, the registry supplied %s", sel.Pkg, rv.V, got, rv.Real)
			}
			dep := b.RegistryPackageVersionDeprecation(rpa, cv)
			switch {
			case rv.Deprecation == nil && dep != nil:
				return fmt.Errorf("%s %s: the bundle holds the deprecation note %q, the registry attached none", sel.Pkg, rv.V, dep.Reason)
			case rv.Deprecation != nil && dep == nil:
				return fmt.Errorf("%s %s: the registry's deprecation note %q is not retrievable from the bundle", sel.Pkg, rv.V, rv.Deprecation.Reason)
			case rv.Deprecation != nil && (dep.Reason != rv.Deprecation.Reason || dep.Link != rv.Deprecation.Link):
				return fmt.Errorf("%s %s: deprecation note (%q, %q) retrieved, the registry supplied (%q, %q)", sel.Pkg, rv.V, dep.Reason, dep.Link, rv.Deprecation.Reason, rv.Deprecation.Link)
			}
			listed := false
			for _, bv := range b.RegistryPackageVersions(rpa) {
				if bv == cv {
					listed = true
				}
			}
			if !listed {
				return fmt.Errorf("RegistryPackageVersions(%s) = %v lacks %s although its source address is recorded", sel.Pkg, b.RegistryPackageVersions(rpa), rv.V)
			}
		}
		if !found {
			return fmt.Errorf("RegistryPackageSourceAddr(%s, %s) is missing (the bundle has %v)", sel.Pkg, sel.Version, b.RegistryPackageVersions(rpa))
		}
	}
	return nil
}

func findRemote(w world.World, pkg string) *world.RemotePkg {
	for i := range w.Remotes {
		pa, err := sourceaddrs.ParseRemotePackage(w.Remotes[i].Addr)
		if err == nil && pa.String() == pkg {
			return &w.Remotes[i]
		}
	}
	return nil
}

func regOf(w world.World, pkg string) *world.RegistryPkg {
	for i := range w.Registry {
		pa, err := sourceaddrs.ParseRegistryPackage(w.Registry[i].Addr)
		if err == nil && pa.String() == pkg {
			return &w.Registry[i]
		}
	}
	return nil
}

// checkPath: inside the bundle; exists iff the package has that sub-path; holds the fetched content.
func checkPath(w world.World, root string, src sourceaddrs.RemoteSource, p string) error {
	if !fsx.Inside(root, p) && !fsx.Inside(filepath.Clean(root), filepath.Clean(p)) {
		return fmt.Errorf("local path %q for %s lies outside the bundle directory %q", p, src, root)
	}
	rp := findRemote(w, src.Package().String())
	fi, err := os.Stat(p)
	exists := err == nil
	if rp.ModuleExists(src.SubPath()) {
		if !exists || !fi.IsDir() {
			return fmt.Errorf("%s: the fetched package contains %q but %q does not exist as a directory (%v)", src, src.SubPath(), p, err)
		}
		b, err := os.ReadFile(filepath.Join(p, "main.tf"))
		want := "module:" + rp.Content + ":" + src.SubPath()
		if err != nil || string(b) != want {
			return fmt.Errorf("%s: %q holds %q (%v), fetched content was %q", src, filepath.Join(p, "main.tf"), b, err, want)
		}
		mk, err := os.ReadFile(filepath.Join(pkgRootOf(p, src.SubPath()), "pkg.txt"))
		if err != nil || string(mk) != "content:"+rp.Content {
			return fmt.Errorf("%s: package directory of %q holds marker %q (%v), want content:%s", src, p, mk, err, rp.Content)
		}
	} else if rp.HasDir(src.SubPath()) {
		// a directory of the package that is not a module location (it may be empty)
		if !exists || !fi.IsDir() {
			// known finding: a package whose copy was dropped in favour of an earlier package
			// with the same file paths and contents loses the empty directories only it had
			for _, other := range w.Remotes {
				if other.Addr != rp.Addr && other.Content == rp.Content && !other.HasDir(src.SubPath()) && ev.IsKnown("c08-coalesced-package-loses-empty-dir") {
					ev.Excluded("c08-coalesced-package-loses-empty-dir")
					return nil
				}
			}
			return fmt.Errorf("%s: the fetched package contains the directory %q but %q does not exist as a directory (%v)", src, src.SubPath(), p, err)
		}
	} else if exists && src.SubPath() != "" {
		// an absent sub-path must not materialise out of nowhere
		hasPrefixModule := false
		for _, m := range rp.Modules {
			if strings.HasPrefix(m.Sub, src.SubPath()+"/") {
				hasPrefixModule = true
			}
		}
		if !hasPrefixModule {
			return fmt.Errorf("%s: sub-path %q is not in the fetched package but %q exists", src, src.SubPath(), p)
		}
	}
	return nil
}

func pkgRootOf(p, sub string) string {
	if sub == "" {
		return p
	}
	for range strings.Split(sub, "/") {
		p = filepath.Dir(p)
	}
	return p
}

func TestPropComplete(t *testing.T) {
	ev.Check(t, subComplete, func(t *rapid.T) world.World {
		return world.Gen(t, world.Config{MaxRemotes: 4, MaxRegistry: 3, NFinders: nFinders, Clones: true, Meta: true, OddSubPaths: true, Twins: false, EmptyDirClones: true, Diags: true})
	})
}

func TestReplay(t *testing.T) { ev.Replay(t) }
func TestKnown(t *testing.T)  { ev.KnownFindings(t) }
