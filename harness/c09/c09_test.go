// C09 — a bundle survives being re-opened and archived.
package c09

import (
	"bytes"
	"fmt"
	"os"
	"path/filepath"
	"sort"
	"strings"
	"testing"

	"github.com/apparentlymart/go-versions/versions"
	"github.com/hashicorp/go-slug/sourceaddrs"
	"github.com/hashicorp/go-slug/sourcebundle"
	"pgregory.net/rapid"

	"verif/lib/ev"
	"verif/lib/fsx"
	"verif/lib/mgen"
	"verif/lib/world"
)

func TestMain(m *testing.M) { ev.Main(m, "C09") }

const nFinders = 2

// describe renders everything the Bundle API says, relative to the bundle root.
func describe(w world.World, b *sourcebundle.Bundle, root string) (map[string]string, error) {
	out := map[string]string{}
	rel := func(p string, err error) string {
		if err != nil {
			return "!err"
		}
		r, rerr := filepath.Rel(root, p)
		if rerr != nil {
			return "!rel:" + p
		}
		return r
	}
	var pk []string
	for _, p := range b.RemotePackages() {
		pk = append(pk, p.String())
		m := b.RemotePackageMeta(p)
		if m == nil {
			out["meta:"+p.String()] = "nil"
		} else {
			out["meta:"+p.String()] = fmt.Sprintf("%q|%q", m.GitCommitID(), m.GitCommitMessage())
		}
	}
	out["remote-packages"] = strings.Join(pk, ",")
	var rp []string
	for _, p := range b.RegistryPackages() {
		rp = append(rp, p.String())
		vs := b.RegistryPackageVersions(p)
		out["versions:"+p.String()] = fmt.Sprint(vs)
		for _, v := range vs {
			src, ok := b.RegistryPackageSourceAddr(p, v)
			out["regsrc:"+p.String()+"@"+v.String()] = fmt.Sprintf("%s %v", src, ok)
			d := b.RegistryPackageVersionDeprecation(p, v)
			if d == nil {
				out["dep:"+p.String()+"@"+v.String()] = "nil"
			} else {
				out["dep:"+p.String()+"@"+v.String()] = fmt.Sprintf("%q|%q|%q", d.Version, d.Reason, d.Link)
			}
		}
		// a version the bundle does not have
		_, ok := b.RegistryPackageSourceAddr(p, versions.MustParseVersion("99.99.99"))
		out["regsrc-unknown:"+p.String()] = fmt.Sprint(ok)
	}
	out["registry-packages"] = strings.Join(rp, ",")
	cs, err := b.ChecksumV1()
	out["checksum"] = fmt.Sprintf("%s %v", cs, err)
	// lookups for known and unknown addresses
	for _, p := range w.Remotes {
		pa, err := sourceaddrs.ParseRemotePackage(p.Addr)
		if err != nil {
			continue
		}
		for _, sub := range []string{"", "modules/a", "x", "not/there"} {
			src := pa.SourceAddr(sub)
			out["path:"+src.String()] = rel(b.LocalPathForRemoteSource(src))
			out["pathany:"+src.String()] = rel(b.LocalPathForSource(src))
		}
	}
	unknown := sourceaddrs.MustParseSource("git::https://unknown.example.com/nope.git//x").(sourceaddrs.RemoteSource)
	out["path:unknown"] = rel(b.LocalPathForRemoteSource(unknown))
	for _, r := range w.Registry {
		rs, err := sourceaddrs.ParseRegistrySource(r.Addr)
		if err != nil {
			continue
		}
		for _, v := range r.Versions {
			pv, _ := versions.ParseVersion(v.V)
			for _, sub := range []string{"", "modules/a"} {
				s := rs
				if sub != "" {
					s, _ = sourceaddrs.ParseRegistrySource(r.Addr + "//" + sub)
				}
				out["regpath:"+s.String()+"@"+v.V] = rel(b.LocalPathForRegistrySource(s, pv))
				out["finalpath:"+s.String()+"@"+v.V] = rel(b.LocalPathForFinalRegistrySource(s.Versioned(pv)))
			}
			// other spellings of the same precedence (build metadata dropped or changed): whatever the
			// answer is, it is the same every time
			for _, alt := range []string{strings.SplitN(v.V, "+", 2)[0], strings.SplitN(v.V, "+", 2)[0] + "+other"} {
				av, perr := versions.ParseVersion(alt)
				if perr != nil || alt == v.V {
					continue
				}
				first := rel(b.LocalPathForRegistrySource(rs, av))
				for i := 0; i < 5; i++ {
					if again := rel(b.LocalPathForRegistrySource(rs, av)); again != first {
						return nil, fmt.Errorf("LocalPathForRegistrySource(%s, %s) answers %q and then %q on the same bundle", rs, alt, first, again)
					}
				}
				out["regpath-alt:"+rs.String()+"@"+alt] = first
			}
		}
	}
	// looking things up does not change what the bundle lists
	var pkAfter, rpAfter []string
	for _, p := range b.RemotePackages() {
		pkAfter = append(pkAfter, p.String())
	}
	for _, p := range b.RegistryPackages() {
		rpAfter = append(rpAfter, p.String())
	}
	if strings.Join(pkAfter, ",") != out["remote-packages"] || strings.Join(rpAfter, ",") != out["registry-packages"] {
		return nil, fmt.Errorf("after lookups (some for things the bundle does not have) the bundle lists remote packages [%s] and registry packages [%s]; before: [%s] and [%s]",
			strings.Join(pkAfter, ","), strings.Join(rpAfter, ","), out["remote-packages"], out["registry-packages"])
	}
	// reverse lookups on sampled paths
	ents, _ := os.ReadDir(root)
	for _, e := range ents {
		for _, tail := range []string{"", "main.tf", "modules/a", "no/such/file"} {
			p := filepath.Join(root, e.Name(), tail)
			src, err := b.SourceForLocalPath(p)
			if err != nil {
				out["source:"+filepath.Join(e.Name(), tail)] = "!err"
			} else {
				out["source:"+filepath.Join(e.Name(), tail)] = src.String()
			}
			// the answer is a function of the bundle: asking again gives it again
			// (several packages may share the directory)
			for i := 0; i < 5; i++ {
				again, aerr := b.SourceForLocalPath(p)
				if (aerr == nil) != (err == nil) || (err == nil && again.String() != src.String()) {
					return nil, fmt.Errorf("SourceForLocalPath(%s) answers %v, %v and then %v, %v on the same bundle", filepath.Join(e.Name(), tail), src, err, again, aerr)
				}
			}
		}
	}
	return out, nil
}

func diffMaps(a, b map[string]string) string {
	keys := map[string]bool{}
	for k := range a {
		keys[k] = true
	}
	for k := range b {
		keys[k] = true
	}
	var ks []string
	for k := range keys {
		ks = append(ks, k)
	}
	sort.Strings(ks)
	for _, k := range ks {
		if a[k] != b[k] {
			return fmt.Sprintf("%s: %q vs %q", k, a[k], b[k])
		}
	}
	return ""
}

// Case: a world, and whether the bundle directory is given through a symlinked parent directory.
type Case struct {
	World   world.World `json:"world"`
	ViaLink bool        `json:"via_link,omitempty"`
	// the directory handed to ExtractArchive is named relative to the working directory
	RelExtract bool `json:"rel_extract,omitempty"`
	// ... namely as "." from inside it
	DotExtract bool `json:"dot_extract,omitempty"`
}

var subSurvive = ev.Register("survive", func(c Case) error { return checkSurvive(c.World, c.ViaLink, c.RelExtract, c.DotExtract) })

func checkSurvive(w world.World, viaLink, relExtract, dotExtract bool) error {
	exp := world.Reference(w, nFinders)
	if exp.Error != "" || exp.Ambiguous {
		ev.Label("not-judged")
		return nil
	}
	arena, cleanup := fsx.Scratch("c09-")
	defer cleanup()
	// The directories used below held other bundles before (a work directory that is reused):
	// whatever was learnt about them then must not come back.
	for _, d := range []string{"b1", "b3", "real/b1"} {
		dir := filepath.Join(arena, d)
		os.MkdirAll(dir, 0755)
		os.WriteFile(filepath.Join(dir, "terraform-sources.json"), []byte(`{"terraform_source_bundle":1,"packages":[{"source":"git::https://example.com/earlier.git","local":"earlier","meta":{}}],"registry":[]}`), 0644)
		os.Mkdir(filepath.Join(dir, "earlier"), 0755)
		if d == "b3" {
			// ... the earlier bundle in the directory the archive will be extracted into knew the same registry
			// packages and versions, at another address, and was asked about them
			doc := mgen.Doc{Format: "1", Packages: []mgen.Pkg{{Source: "git::https://example.com/earlier.git", Local: "earlier"}}}
			for _, rp := range w.Registry {
				reg := mgen.Reg{Source: rp.Addr}
				for _, v := range rp.Versions {
					reg.Versions = append(reg.Versions, mgen.RegVer{V: v.V, Source: "git::https://example.com/earlier.git//elsewhere"})
				}
				doc.Registry = append(doc.Registry, reg)
			}
			os.WriteFile(filepath.Join(dir, "terraform-sources.json"), doc.Render(), 0644)
		}
		eb, err := sourcebundle.OpenDir(dir)
		if err != nil {
			return fmt.Errorf("harness: earlier bundle: %v", err)
		}
		if d == "b3" {
			describe(w, eb, dir)
		}
		fsx.RemoveAll(dir)
	}
	os.RemoveAll(filepath.Join(arena, "real"))
	target1 := filepath.Join(arena, "b1")
	if viaLink {
		// <arena>/alias -> real ; the bundle lives at <arena>/alias/b1
		os.MkdirAll(filepath.Join(arena, "real"), 0755)
		os.Symlink("real", filepath.Join(arena, "alias"))
		target1 = filepath.Join(arena, "alias", "b1")
	}
	run, err := world.Execute(w, nFinders, target1, nil)
	if err != nil {
		return fmt.Errorf("harness: %v", err)
	}
	if run.AnyErrors() {
		ev.Label("build-failed")
		return nil // C08 / C10 territory (e.g. links the builder refuses)
	}
	run.Close()
	if run.ClosePanic != nil || run.CloseErr != nil {
		return fmt.Errorf("Close failed: %v %v", run.CloseErr, run.ClosePanic)
	}
	rich := false
	for _, p := range w.Remotes {
		if len(p.Extra) > 0 || p.Meta != nil {
			rich = true
		}
	}
	if len(exp.Packages) >= 2 && (rich || len(exp.Selections) > 0) {
		ev.NonTrivial(Case{w, viaLink, relExtract, dotExtract}, "multi-package-with-meta-links-or-registry")
	} else if rich || len(exp.Selections) > 0 {
		ev.NonTrivial(Case{w, viaLink, relExtract, dotExtract}, "meta-links-or-registry")
	}
	root1 := run.Target
	d1, err := describe(w, run.Bundle, root1)
	if err != nil {
		return err
	}
	// re-open
	b2, err := sourcebundle.OpenDir(root1)
	if err != nil {
		return fmt.Errorf("OpenDir of the directory Close just finished failed: %v", err)
	}
	d2, _ := describe(w, b2, root1)
	if d := diffMaps(d1, d2); d != "" {
		return fmt.Errorf("re-opened bundle differs from the one Close returned: %s", d)
	}
	// archive and extract elsewhere
	var buf bytes.Buffer
	if err := run.Bundle.WriteArchive(&buf); err != nil {
		return fmt.Errorf("WriteArchive failed: %v", err)
	}
	root3 := filepath.Join(arena, "b3")
	os.Mkdir(root3, 0755)
	extractTo := root3
	if relExtract {
		// a relative spelling; the working directory moves on afterwards
		old, _ := os.Getwd()
		if err := os.Chdir(arena); err != nil {
			return fmt.Errorf("harness: %v", err)
		}
		defer os.Chdir(old)
		extractTo = "b3"
		if dotExtract {
			os.Chdir(root3)
			extractTo = "."
		}
	}
	b3, err := sourcebundle.ExtractArchive(bytes.NewReader(buf.Bytes()), extractTo)
	if relExtract {
		os.Chdir(filepath.Join(arena, "real"))
		os.Chdir(root1)
	}
	if err != nil {
		return fmt.Errorf("ExtractArchive of the archive WriteArchive produced failed: %v", err)
	}
	d3, _ := describe(w, b3, root3)
	if d := diffMaps(d1, d3); d != "" {
		return fmt.Errorf("bundle extracted from the archive differs from the one Close returned: %s", d)
	}
	// the same files
	s1, err := fsx.Snapshot(root1, nil)
	if err != nil {
		return fmt.Errorf("harness: %v", err)
	}
	s3, err := fsx.Snapshot(root3, nil)
	if err != nil {
		return fmt.Errorf("harness: %v", err)
	}
	delete(s1, ".")
	delete(s3, ".")
	if d := fsx.Diff(s1, s3, "mode size target sum"); len(d) > 0 {
		if len(d) > 5 {
			d = d[:5]
		}
		return fmt.Errorf("extracted bundle directory differs from the original: %s", strings.Join(d, "; "))
	}
	return nil
}

func TestPropSurvive(t *testing.T) {
	ev.Check(t, subSurvive, func(t *rapid.T) Case {
		w := world.Gen(t, world.Config{MaxRemotes: 4, MaxRegistry: 3, NFinders: nFinders, Clones: true, Meta: true, RichTrees: true, OddSubPaths: true, Twins: true})
		return Case{World: w, ViaLink: rapid.IntRange(0, 3).Draw(t, "vialink") == 0, RelExtract: rapid.IntRange(0, 3).Draw(t, "relextract") == 0, DotExtract: rapid.Bool().Draw(t, "dotextract")}
	})
}

func TestReplay(t *testing.T) { ev.Replay(t) }
func TestKnown(t *testing.T)  { ev.KnownFindings(t) }
