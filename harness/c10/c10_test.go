// C10 — bundle package directories are sanitised.
package c10

import (
	"context"
	"fmt"
	iofs "io/fs"
	"net/url"
	"os"
	"path/filepath"
	"sort"
	"strings"
	"testing"

	"github.com/hashicorp/go-slug/sourceaddrs"
	"github.com/hashicorp/go-slug/sourcebundle"
	"pgregory.net/rapid"

	"verif/lib/ev"
	"verif/lib/fsx"
	"verif/lib/refignore"
)

func TestMain(m *testing.M) { ev.Main(m, "C10") }

// Pkg is one fetched package: benign files plus planted hazards.
type Pkg struct {
	Tree  fsx.Tree `json:"tree"` // targets may use {T} (the directory the fetcher writes into), {A} (arena), {SIB} (a sibling package directory)
	Rules *string  `json:"rules,omitempty"`
	Deps  []int    `json:"deps,omitempty"` // indices of packages this one depends on (root module)
	// the rule file comes after 1.2 MiB of comment lines (rendered by the fetcher, not stored in the case)
	PadRules bool `json:"pad_rules,omitempty"`
	// the fetcher does not fill the directory it is given but replaces it by a link to a checkout elsewhere
	ReplaceDir bool `json:"replace_dir,omitempty"`
}

type Case struct {
	Pkgs []Pkg `json:"pkgs"`
	// the last package is fetched as a byte-identical copy of the first (own address, same files)
	Clone bool `json:"clone,omitempty"`
	// how the target directory is named: "" absolute | "vialink" through a symlinked parent |
	// "relative" relative to the working directory at NewBuilder, which then changes
	Target string `json:"target,omitempty"`
}

func addrOf(i int) string { return fmt.Sprintf("https://example.com/pkg%d.tgz", i) }

// paddedRules: the rule file as fetched - for PadRules packages behind 1.2 MiB of comment lines.
func paddedRules(p Pkg) string {
	if p.Rules == nil {
		return ""
	}
	if !p.PadRules {
		return *p.Rules
	}
	return strings.Repeat("# "+strings.Repeat("-", 997)+"\n", 1200) + *p.Rules
}

type fetcher struct {
	c     Case
	arena string
}

func (f fetcher) FetchSourcePackage(ctx context.Context, st string, u *url.URL, dir string) (sourcebundle.FetchSourcePackageResponse, error) {
	var resp sourcebundle.FetchSourcePackageResponse
	for i, p := range f.c.Pkgs {
		if u.String() != addrOf(i) {
			continue
		}
		sib := filepath.Dir(dir)
		if ents, err := os.ReadDir(filepath.Dir(dir)); err == nil {
			for _, e := range ents {
				if e.IsDir() && filepath.Join(filepath.Dir(dir), e.Name()) != dir {
					sib = filepath.Join(filepath.Dir(dir), e.Name())
				}
			}
		}
		if p.ReplaceDir {
			os.Remove(dir)
			return resp, os.Symlink(filepath.Join(f.arena, "outside", "checkout"), dir)
		}
		vars := map[string]string{"T": dir, "A": f.arena, "SIB": sib, "TB": filepath.Base(dir)}
		if f.c.Clone && i == len(f.c.Pkgs)-1 {
			i, p = 0, f.c.Pkgs[0]
		}
		tr := append(fsx.Tree{{Path: "main.tf", Kind: "file", Content: fmt.Sprintf("IN:pkg%d", i), Mode: 0644, Sec: 1500000000}}, p.Tree...)
		if p.Rules != nil {
			tr = append(tr, fsx.Node{Path: ".terraformignore", Kind: "file", Content: paddedRules(p), Mode: 0644, Sec: 1500000000})
		}
		return resp, fsx.Materialise(dir, tr, vars)
	}
	return resp, fmt.Errorf("harness: unknown package %s", u)
}

type finder struct{ c Case }

func (f *finder) FindDependencies(fsys iofs.FS, subPath string, deps *sourcebundle.Dependencies) sourcebundle.Diagnostics {
	b, err := iofs.ReadFile(fsys, "main.tf")
	if err != nil {
		return nil
	}
	var i int
	fmt.Sscanf(string(b), "IN:pkg%d", &i)
	if i < len(f.c.Pkgs) {
		for _, d := range f.c.Pkgs[i].Deps {
			deps.AddRemoteSource(sourceaddrs.MustParseSource(addrOf(d%len(f.c.Pkgs))).(sourceaddrs.RemoteSource), f)
		}
	}
	return nil
}

var subSanitised = ev.Register("sanitised", checkSanitised)

var arenaTree = fsx.Tree{
	{Path: "canary", Kind: "file", Content: "OUT:canary", Mode: 0600, Sec: 1400000000},
	{Path: "outside/dir/f", Kind: "file", Content: "OUT:f", Mode: 0644, Sec: 1400000001},
	{Path: "outside/pipe", Kind: "fifo"},
	{Path: "outside/site.ignore", Kind: "file", Content: "*.log\n", Mode: 0644, Sec: 1400000002},
	{Path: "outside/checkout/main.tf", Kind: "file", Content: "OUT:checkout", Mode: 0644, Sec: 1400000003},
	{Path: "outside/checkout/.git/HEAD", Kind: "file", Content: "ref: x", Mode: 0644, Sec: 1400000004},
	{Path: "outside/checkout/notes/todo.txt", Kind: "file", Content: "OUT:notes", Mode: 0644, Sec: 1400000005},
	{Path: "outside/checkout/secrets.auto.tfvars", Kind: "file", Content: "OUT:secret", Mode: 0600, Sec: 1400000006},
	{Path: "outside/checkout/.terraformignore", Kind: "file", Content: "notes/\n*.tfvars\n", Mode: 0644, Sec: 1400000007},
}

// definitelyBad: a hazard that no reading of the rules permits in a finished bundle.
func definitelyBad(n fsx.Node) (bool, string) {
	switch n.Kind {
	case "fifo", "socket":
		return true, "special file " + n.Path
	case "symlink":
		t := n.Target
		depth := strings.Count(n.Path, "/")
		switch {
		case strings.HasPrefix(t, "{A}"):
			return true, "link " + n.Path + " out of the bundle"
		case strings.Contains(t, "outside/site.ignore"):
			return true, "link " + n.Path + " out of the bundle"
		case t == "/etc/passwd" || t == "/dev/null":
			return true, "link " + n.Path + " to " + t
		case strings.HasPrefix(t, strings.Repeat("../", depth+1)):
			return true, "link " + n.Path + " climbing out of the package"
		case strings.HasPrefix(t, "missing"):
			return true, "dangling link " + n.Path
		}
	}
	return false, ""
}

func checkSanitised(c Case) error {
	arena, cleanup := fsx.Scratch("c10-")
	defer cleanup()
	if err := fsx.Materialise(arena, arenaTree, nil); err != nil {
		return fmt.Errorf("harness: %v", err)
	}
	target := filepath.Join(arena, "bundle")
	os.Mkdir(target, 0755)
	skip := func(rel string) bool { return rel == "bundle" }
	if c.Target == "vialink" {
		os.Remove(target)
		os.MkdirAll(filepath.Join(arena, "real", "bundle"), 0755)
		os.Symlink("real", filepath.Join(arena, "alias"))
		target = filepath.Join(arena, "alias", "bundle")
		skip = func(rel string) bool { return rel == "real/bundle" }
	}
	// the process's working directory and temporary directory are part of "outside the target"
	os.Mkdir(filepath.Join(arena, "cwd"), 0755)
	os.Mkdir(filepath.Join(arena, "cwd", "bundle"), 0755) // what the target's relative name means from the later working directory
	os.Mkdir(filepath.Join(arena, "tmp"), 0777)
	oldWd, _ := os.Getwd()
	oldTmp := os.Getenv("TMPDIR")
	os.Chdir(filepath.Join(arena, "cwd"))
	os.Setenv("TMPDIR", filepath.Join(arena, "tmp"))
	defer func() {
		os.Chdir(oldWd)
		os.Setenv("TMPDIR", oldTmp)
	}()
	before, err := fsx.Snapshot(arena, skip)
	if err != nil {
		return fmt.Errorf("harness: %v", err)
	}
	planted := false
	mustFail := ""
	reach := reachableSet(c)
	for pi, p := range c.Pkgs {
		var rules []refignore.Rule
		text := ""
		if p.Rules != nil {
			text = *p.Rules
		}
		rules = refignore.Rules(text)
		if p.ReplaceDir && reach[pi] {
			planted = true
			mustFail = "package directory that is a link to a directory elsewhere"
		}
		for _, n := range p.Tree {
			if n.Kind == "symlink" || n.Kind == "fifo" || n.Kind == "socket" {
				planted = true
			}
			if bad, why := definitelyBad(n); bad {
				ignored := refignore.Excluded(rules, n.Path, false)
				for d := filepath.Dir(n.Path); d != "." && d != "/"; d = filepath.Dir(d) {
					if refignore.Excluded(rules, d, false) || refignore.Excluded(rules, d, true) {
						ignored = true
					}
				}
				if !ignored && reach[pi] {
					mustFail = why
				}
			}
		}
	}
	if planted {
		ev.NonTrivial(c, "planted-link-or-special-file")
	}
	builderTarget := target
	if c.Target == "relative" {
		os.Chdir(arena)
		builderTarget = "bundle"
	}
	b, err := sourcebundle.NewBuilder(builderTarget, fetcher{c, arena}, nil)
	os.Chdir(filepath.Join(arena, "cwd"))
	if err != nil {
		return fmt.Errorf("harness: %v", err)
	}
	var diags sourcebundle.Diagnostics
	var panicked any
	func() {
		defer func() { panicked = recover() }()
		diags = b.AddRemoteSource(context.Background(), sourceaddrs.MustParseSource(addrOf(0)).(sourceaddrs.RemoteSource), &finder{c})
	}()
	if panicked != nil {
		return fmt.Errorf("builder panicked: %v", panicked)
	}
	after, err := fsx.Snapshot(arena, skip)
	if err != nil {
		return fmt.Errorf("harness: %v", err)
	}
	if d := fsx.Diff(before, after, "mode size mtime target sum ino"); len(d) > 0 {
		return fmt.Errorf("the build touched something outside the target directory: %s", strings.Join(d, "; "))
	}
	if diags.HasErrors() {
		ev.Label("build-failed")
		return nil
	}
	if mustFail != "" {
		return fmt.Errorf("a fetched package contains a %s that no ignore rule removes, but the build reported no error", mustFail)
	}
	bundle, err := b.Close()
	if err != nil {
		return fmt.Errorf("Close failed after a build without errors: %v", err)
	}
	ev.Label("build-ok")
	root, _ := filepath.EvalSymlinks(target)
	ents, _ := os.ReadDir(root)
	for _, e := range ents {
		if strings.HasPrefix(e.Name(), ".tmp-") {
			return fmt.Errorf("temporary directory %s left in the finished bundle", e.Name())
		}
		if !e.IsDir() {
			continue
		}
		pkgDir := filepath.Join(root, e.Name())
		snap, err := fsx.Snapshot(pkgDir, nil)
		if err != nil {
			return fmt.Errorf("harness: %v", err)
		}
		// which package(s) is this?
		var rules []refignore.Rule
		if rb, err := os.ReadFile(filepath.Join(pkgDir, ".terraformignore")); err == nil {
			rules = refignore.Rules(string(rb))
		} else {
			rules = refignore.Rules("")
		}
		keys := make([]string, 0, len(snap))
		for k := range snap {
			keys = append(keys, k)
		}
		sort.Strings(keys)
		for _, k := range keys {
			en := snap[k]
			if k == "." {
				continue
			}
			switch en.Type {
			case "file", "dir":
			case "symlink":
				res, exists, loop := fsx.Resolve(filepath.Dir(filepath.Join(pkgDir, k)), en.Target)
				if loop || !exists {
					return fmt.Errorf("package directory %s: link %q -> %q does not resolve to anything (dangling or a loop)", e.Name(), k, en.Target)
				}
				if !fsx.Inside(pkgDir, res) {
					return fmt.Errorf("package directory %s: link %q -> %q resolves to %q, outside the package directory", e.Name(), k, en.Target, res)
				}
				fi, err := os.Lstat(res)
				if err != nil || !(fi.Mode().IsRegular() || fi.IsDir()) {
					return fmt.Errorf("package directory %s: link %q -> %q resolves to something that is not a regular file or directory", e.Name(), k, en.Target)
				}
			default:
				return fmt.Errorf("package directory %s contains %q, a %s", e.Name(), k, en.Type)
			}
			if en.Type != "dir" && refignore.Excluded(rules, k, false) {
				return fmt.Errorf("package directory %s still contains %q, which its ignore rules exclude", e.Name(), k)
			}
		}
	}
	_ = bundle
	return nil
}

// reachableSet: packages fetched by a build that starts at package 0.
func reachableSet(c Case) map[int]bool {
	seen := map[int]bool{}
	var walk func(i int)
	walk = func(i int) {
		if seen[i] {
			return
		}
		seen[i] = true
		for _, d := range c.Pkgs[i].Deps {
			walk(d % len(c.Pkgs))
		}
	}
	walk(0)
	return seen
}

var hazardNodes = []fsx.Node{
	{Path: "ln-file", Kind: "symlink", Target: "main.tf"},
	// reads as inside the package, leaves it by way of an in-package link to "."
	{Path: ".tfvars", Kind: "file", Content: "IN:vars", Mode: 0644},
	{Path: "chain", Kind: "file", Content: "IN:chain", Mode: 0644},
	{Path: "zz-dot", Kind: "symlink", Target: "."},
	{Path: "ln-via-dot-out", Kind: "symlink", Target: "zz-dot/../../canary"},
	{Path: "sub/ln-via-dot-root", Kind: "symlink", Target: "../zz-dot/.."},
	{Path: "sub/ln-up-file", Kind: "symlink", Target: "../main.tf"},
	{Path: "ln-abs-in-pkg", Kind: "symlink", Target: "{T}/main.tf"},
	{Path: "ln-abs-dir-in-pkg", Kind: "symlink", Target: "{T}/sub"},
	{Path: "ln-reenter", Kind: "symlink", Target: "../{TB}/main.tf"},
	{Path: "sub/ln-reenter2", Kind: "symlink", Target: "../../{TB}/sub/keep.txt"},
	{Path: "ln-reenter-dir", Kind: "symlink", Target: "../{TB}/sub"},
	{Path: "ln-bundle-root", Kind: "symlink", Target: ".."},
	{Path: "sub/ln-bundle-root2", Kind: "symlink", Target: "../.."},
	{Path: "ln-bundle-root-abs", Kind: "symlink", Target: "{T}/.."},
	{Path: "ln-sibling", Kind: "symlink", Target: "{SIB}"},
	{Path: "ln-sibling-file", Kind: "symlink", Target: "{SIB}/main.tf"},
	{Path: "ln-manifest", Kind: "symlink", Target: "../terraform-sources.json"},
	{Path: "ln-canary", Kind: "symlink", Target: "{A}/canary"},
	{Path: ".terraformignore", Kind: "symlink", Target: "{A}/outside/site.ignore"},
	{Path: "sub/.terraformignore", Kind: "symlink", Target: "../../../outside/site.ignore"},
	{Path: "ln-outdir", Kind: "symlink", Target: "{A}/outside/dir"},
	{Path: "ln-rel-out", Kind: "symlink", Target: "../../canary"},
	{Path: "ln-etc", Kind: "symlink", Target: "/etc/passwd"},
	{Path: "ln-dangling", Kind: "symlink", Target: "missing-target"},
	{Path: "sub/ln-dangling2", Kind: "symlink", Target: "missing/deeper"},
	{Path: "chain1", Kind: "symlink", Target: "chain2"},
	{Path: "chain2", Kind: "symlink", Target: "main.tf"},
	{Path: "chainout1", Kind: "symlink", Target: "chainout2"},
	{Path: "chainout2", Kind: "symlink", Target: "{A}/canary"},
	{Path: "aa-to-secret", Kind: "symlink", Target: "secret.txt"},
	{Path: "secret.txt", Kind: "file", Content: "IN:secret", Mode: 0600},
	{Path: "zz-to-secret", Kind: "symlink", Target: "secret.txt"},
	{Path: "aa-into-cache", Kind: "symlink", Target: "cache/v1/data"},
	{Path: "cache/v1/data", Kind: "file", Content: "IN:cache", Mode: 0644},
	{Path: "build", Kind: "symlink", Target: "sub"},
	{Path: "x.lnk", Kind: "symlink", Target: "main.tf"},
	{Path: "out.lnk", Kind: "symlink", Target: "{A}/canary"},
	{Path: "pipe", Kind: "fifo"},
	{Path: "sub/sock", Kind: "socket"},
	{Path: "ln-pipe", Kind: "symlink", Target: "{A}/outside/pipe"},
	{Path: "logs/pipe", Kind: "fifo"},
	{Path: "self", Kind: "symlink", Target: "self"},
	{Path: "sub/keep.txt", Kind: "file", Content: "IN:keep", Mode: 0644},
	{Path: "logs/a.log", Kind: "file", Content: "IN:log", Mode: 0644},
	{Path: "zz-leak", Kind: "symlink", Target: "{A}/canary"},
	{Path: "prod.tfvars", Kind: "file", Content: "IN:vars", Mode: 0644},
}

var ruleLines = []string{"/secret.txt", "/sub/keep.txt", "/logs/", "secret.txt", "cache/", "*.lnk", "logs/", "!logs/a.log", "build/", "*.tfvars", "pipe", "sub/", "!sub/keep.txt", "/ln-*", "zz-*", "*.log", "self", "chain*"}

// combos: hazards and rules that only matter together (a link validated before
// a rule removes its target; an ignored entry followed by siblings that still
// need sanitising; re-included content below an ignored directory).
var combos = []struct {
	nodes []string
	rules []string
}{
	{[]string{"aa-to-secret", "secret.txt"}, []string{"secret.txt"}},
	{[]string{"zz-to-secret", "secret.txt"}, []string{"secret.txt"}},
	{[]string{"aa-into-cache", "cache/v1/data"}, []string{"cache/"}},
	{[]string{"build", "zz-leak", "prod.tfvars"}, []string{"build/", "*.tfvars"}},
	{[]string{"build", "zz-leak"}, []string{"build/"}},
	{[]string{"build", "pipe"}, []string{"build/"}},
	{[]string{"x.lnk", "out.lnk", "zz-leak"}, []string{"*.lnk"}},
	{[]string{"logs/pipe", "logs/a.log"}, []string{"logs/", "!logs/a.log"}},
	{[]string{"logs/pipe", "logs/a.log", "zz-leak"}, []string{"logs/"}},
	{[]string{"chain1", "chain2", "secret.txt"}, []string{"chain2"}},
	{[]string{"self", "zz-leak"}, []string{"self"}},
	{[]string{"ln-canary", "prod.tfvars"}, []string{"/ln-*", "*.tfvars"}},
	// re-included by the last negation of the file, excluded again by a later rule
	{nil, []string{"*.txt", "!sub/keep.txt", "keep.*"}},
	{[]string{"secret.txt"}, []string{"*.txt", "!secret.txt", "!sub/keep.txt", "secret*"}},
	{[]string{"logs/a.log"}, []string{"!logs/a.log", "*.log"}},
}

func nodeByPath(p string) fsx.Node {
	for _, n := range hazardNodes {
		if n.Path == p {
			return n
		}
	}
	panic("no hazard " + p)
}

func TestPropSanitised(t *testing.T) {
	ev.Check(t, subSanitised, func(t *rapid.T) Case {
		n := rapid.IntRange(1, 3).Draw(t, "npkgs")
		var c Case
		for i := 0; i < n; i++ {
			var p Pkg
			p.Tree = fsx.Tree{{Path: "sub", Kind: "dir", Mode: 0755}, {Path: "sub/keep.txt", Kind: "file", Content: "IN:keep", Mode: 0644}}
			idx := rapid.SliceOfNDistinct(rapid.IntRange(0, len(hazardNodes)-1), 0, 5, func(i int) int { return i }).Draw(t, "hazards")
			have := map[string]bool{"sub": true, "sub/keep.txt": true}
			for _, h := range idx {
				if !have[hazardNodes[h].Path] {
					have[hazardNodes[h].Path] = true
					p.Tree = append(p.Tree, hazardNodes[h])
				}
			}
			var lines []string
			if rapid.IntRange(0, 2).Draw(t, "rules?") > 0 {
				lines = rapid.SliceOfN(rapid.SampledFrom(ruleLines), 0, 4).Draw(t, "rules")
			}
			if rapid.IntRange(0, 3).Draw(t, "combo?") == 0 {
				cb := combos[rapid.IntRange(0, len(combos)-1).Draw(t, "combo")]
				for _, np := range cb.nodes {
					if !have[np] {
						have[np] = true
						p.Tree = append(p.Tree, nodeByPath(np))
					}
				}
				lines = append(lines, cb.rules...)
			}
			if lines != nil && !have[".terraformignore"] {
				s := strings.Join(lines, "\n") + "\n"
				p.Rules = &s
				p.PadRules = rapid.IntRange(0, 19).Draw(t, "padrules") == 0
			}
			p.ReplaceDir = rapid.IntRange(0, 24).Draw(t, "replacedir") == 0
			if n > 1 {
				p.Deps = rapid.SliceOfN(rapid.IntRange(0, n-1), 0, 2).Draw(t, "deps")
			}
			c.Pkgs = append(c.Pkgs, p)
		}
		if n > 1 && rapid.IntRange(0, 3).Draw(t, "clone?") == 0 {
			// the last package is a byte-identical copy of the first under its own
			// address, and the first depends on it: both are fetched, one directory is kept
			c.Pkgs[n-1].Tree, c.Pkgs[n-1].Rules, c.Pkgs[n-1].Deps = c.Pkgs[0].Tree, c.Pkgs[0].Rules, nil
			c.Pkgs[0].Deps = append(c.Pkgs[0].Deps, n-1)
			c.Clone = true
		}
		c.Target = rapid.SampledFrom([]string{"", "", "", "vialink", "relative"}).Draw(t, "target")
		return c
	})
}

func TestReplay(t *testing.T) { ev.Replay(t) }
func TestKnown(t *testing.T)  { ev.KnownFindings(t) }
