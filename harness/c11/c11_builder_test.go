package c11

// The builder's use of the same join: a registry source with sub-path s,
// resolved by the registry to a real address with sub-path r, is analysed at
// r joined with s - for every request, including those answered from the
// builder's caches (same package and version asked for again).

import (
	"fmt"
	"path"
	"strings"
	"testing"

	"pgregory.net/rapid"

	"verif/lib/ev"
	"verif/lib/fsx"
	"verif/lib/world"
)

type BuilderCase struct {
	World world.World `json:"world"`
}

var subBuilderJoin = ev.Register("builderjoin", checkBuilderJoin)

func checkBuilderJoin(c BuilderCase) error {
	w := c.World
	arena, cleanup := fsx.Scratch("c11b-")
	defer cleanup()
	h := world.NewHarness(w, 1)
	run, err := world.Start(h, world.TargetDir(arena))
	if err != nil {
		return fmt.Errorf("harness: %v", err)
	}
	ctx := h.Context("full")
	analysed := func() map[string]bool {
		m := map[string]bool{}
		for _, e := range h.Log {
			if e.Kind == "analyse" {
				m[e.Key] = true
			}
		}
		return m
	}
	subs := map[string]bool{}
	for i, call := range w.Script {
		res := run.DoCall(ctx, call)
		if res.Panicked != nil {
			return fmt.Errorf("call %d (%+v) panicked: %v", i, call, res.Panicked)
		}
		if res.Diags.HasErrors() {
			var msgs []string
			for _, d := range res.Diags {
				msgs = append(msgs, world.DiagString(d))
			}
			return fmt.Errorf("call %d (%+v) failed: %s", i, call, strings.Join(msgs, " || "))
		}
		// the single offered version of the package decides the real address
		_, s, _ := strings.Cut(call.Addr, "//")
		subs[s] = true
		for _, rp := range w.Registry {
			if !strings.HasPrefix(call.Addr, rp.Addr) {
				continue
			}
			real := rp.Versions[0].Real
			pkg, r := real, ""
			if k := strings.Index(real[len("https://"):], "//"); k >= 0 {
				pkg, r = real[:len("https://")+k], real[len("https://")+k+2:]
			}
			want := path.Join(r, s)
			if want == "." {
				want = ""
			}
			content := ""
			for _, p := range w.Remotes {
				if p.Addr == pkg {
					content = p.Content
				}
			}
			key := fmt.Sprintf("%s//%s#f0", content, want)
			if !analysed()[key] {
				return fmt.Errorf("request %d for %s (registry answers %s): the module at sub-path %q of that package was not analysed; analysed so far: %v", i, call.Addr, real, want, keys(analysed()))
			}
		}
	}
	if len(subs) > 1 {
		ev.NonTrivial(c, "several-sub-paths-of-one-registry-package")
	}
	return nil
}

func keys(m map[string]bool) []string {
	var out []string
	for k := range m {
		out = append(out, k)
	}
	return out
}

func TestBuilderJoin(t *testing.T) {
	ev.Check(t, subBuilderJoin, func(t *rapid.T) BuilderCase {
		var w world.World
		w.Remotes = []world.RemotePkg{{Addr: "https://example.com/real.tgz", Content: "real",
			Modules: []world.Module{{Sub: ""}, {Sub: "root"}, {Sub: "root/x"}, {Sub: "x"}, {Sub: "modules/a"}, {Sub: "root/modules/a"}}}}
		r := rapid.SampledFrom([]string{"", "root", "root", "x"}).Draw(t, "registrysub")
		real := w.Remotes[0].Addr
		if r != "" {
			real += "//" + r
		}
		w.Registry = []world.RegistryPkg{{Addr: "example.com/ns/name/aws", Versions: []world.RegVersion{{V: "1.0.0", Real: real}}}}
		n := rapid.IntRange(1, 4).Draw(t, "ncalls")
		for i := 0; i < n; i++ {
			c := world.AddCall{Kind: "registry", Addr: w.Registry[0].Addr}
			if s := rapid.SampledFrom([]string{"", "x", "modules/a", "y/z", "x"}).Draw(t, "sub"); s != "" {
				c.Addr += "//" + s
			}
			if rapid.IntRange(0, 3).Draw(t, "final?") == 0 {
				c.Kind, c.Version = "final", "1.0.0"
			}
			w.Script = append(w.Script, c)
		}
		return BuilderCase{World: w}
	})
}
