package c11

// The builder's use of the same join: a registry source with sub-path s,
// resolved by the registry to a real address with sub-path r, is analysed at
// r joined with s - for every request, including those answered from the
// builder's caches (same package and version asked for again).

import (
	"fmt"
	"path"
	"strings"
	"testing"

	"pgregory.net/rapid"

	"verif/lib/ev"
	"verif/lib/fsx"
	"verif/lib/world"
)

type BuilderCase struct {
	World world.World `json:"world"`
	// for relative dependencies reported by a finder: the module location they are
	// reported from and the relative addresses, in order
	From string   `json:"from,omitempty"`
	Rels []string `json:"rels,omitempty"`
	// the artifact added is the file that declares the dependencies (".../deps-f0.json"), not its directory
	FromFile bool `json:"from_file,omitempty"`
}

var subBuilderJoin = ev.Register("builderjoin", checkBuilderJoin)

func checkBuilderJoin(c BuilderCase) error {
	if len(c.Rels) > 0 {
		return checkBuilderRelative(c)
	}
	w := c.World
	arena, cleanup := fsx.Scratch("c11b-")
	defer cleanup()
	h := world.NewHarness(w, 1)
	run, err := world.Start(h, world.TargetDir(arena))
	if err != nil {
		return fmt.Errorf("harness: %v", err)
	}
	ctx := h.Context("full")
	analysed := func() map[string]bool {
		m := map[string]bool{}
		for _, e := range h.Log {
			if e.Kind == "analyse" {
				m[e.Key] = true
			}
		}
		return m
	}
	subs := map[string]bool{}
	for i, call := range w.Script {
		res := run.DoCall(ctx, call)
		if res.Panicked != nil {
			return fmt.Errorf("call %d (%+v) panicked: %v", i, call, res.Panicked)
		}
		if res.Diags.HasErrors() {
			var msgs []string
			for _, d := range res.Diags {
				msgs = append(msgs, world.DiagString(d))
			}
			return fmt.Errorf("call %d (%+v) failed: %s", i, call, strings.Join(msgs, " || "))
		}
		// the single offered version of the package decides the real address
		_, s, _ := strings.Cut(call.Addr, "//")
		subs[s] = true
		for _, rp := range w.Registry {
			if !strings.HasPrefix(call.Addr, rp.Addr) {
				continue
			}
			real := rp.Versions[0].Real
			pkg, r := real, ""
			if k := strings.Index(real[len("https://"):], "//"); k >= 0 {
				pkg, r = real[:len("https://")+k], real[len("https://")+k+2:]
			}
			want := path.Join(r, s)
			if want == "." {
				want = ""
			}
			content := ""
			for _, p := range w.Remotes {
				if p.Addr == pkg {
					content = p.Content
				}
			}
			key := fmt.Sprintf("%s//%s#f0", content, want)
			if !analysed()[key] {
				return fmt.Errorf("request %d for %s (registry answers %s): the module at sub-path %q of that package was not analysed; analysed so far: %v", i, call.Addr, real, want, keys(analysed()))
			}
		}
	}
	if len(subs) > 1 {
		ev.NonTrivial(c, "several-sub-paths-of-one-registry-package")
	}
	return nil
}

// checkBuilderRelative: relative dependencies reported through
// Dependencies.AddLocalSource obey the same segment algebra: each is analysed at
// the reporting location's sub-path followed by the relative path, and one that
// climbs above the package root fails the build.
func checkBuilderRelative(c BuilderCase) error {
	w := c.World
	arena, cleanup := fsx.Scratch("c11r-")
	defer cleanup()
	h := world.NewHarness(w, 1)
	run, err := world.Start(h, world.TargetDir(arena))
	if err != nil {
		return fmt.Errorf("harness: %v", err)
	}
	res := run.DoCall(h.Context("full"), w.Script[0])
	if res.Panicked != nil {
		return fmt.Errorf("Add call panicked: %v", res.Panicked)
	}
	base := Base{Kind: "remote"}
	if c.From != "" {
		base.Segs = strings.Split(c.From, "/")
	}
	if c.FromFile {
		// relative addresses are resolved against the address that was analysed, whatever it names
		base.Segs = append(base.Segs, "deps-f0.json")
	}
	wantErr := false
	var wantKeys []string
	for _, rel := range c.Rels {
		_, names, ok := model(base, relSegs(rel))
		if !ok {
			wantErr = true
			continue
		}
		if c.FromFile && strings.Join(names, "/") == c.From {
			// leads to the directory whose own analysis reads the same declarations again, from another base
			ev.Label("resolves-to-the-declaring-directory")
			return nil
		}
		wantKeys = append(wantKeys, fmt.Sprintf("real//%s#f0", strings.Join(names, "/")))
	}
	if wantErr {
		if !res.Diags.HasErrors() {
			return fmt.Errorf("a relative dependency among %q reported at %q climbs above the package root, but the Add call reported no error", c.Rels, c.From)
		}
		return nil
	}
	if res.Diags.HasErrors() {
		var msgs []string
		for _, d := range res.Diags {
			msgs = append(msgs, world.DiagString(d))
		}
		return fmt.Errorf("relative dependencies %q reported at %q all stay inside the package, but the Add call failed: %s", c.Rels, c.From, strings.Join(msgs, " || "))
	}
	analysed := map[string]bool{}
	for _, e := range h.Log {
		if e.Kind == "analyse" {
			analysed[e.Key] = true
		}
	}
	for i, k := range wantKeys {
		if !analysed[k] {
			return fmt.Errorf("relative dependency %q reported at %q: the module at %q was not analysed; analysed: %v", c.Rels[i], c.From, strings.TrimSuffix(strings.TrimPrefix(k, "real//"), "#f0"), keys(analysed))
		}
	}
	ev.NonTrivial(c, "relative-dependencies-through-the-builder")
	return nil
}

func keys(m map[string]bool) []string {
	var out []string
	for k := range m {
		out = append(out, k)
	}
	return out
}

func TestBuilderJoin(t *testing.T) {
	ev.Check(t, subBuilderJoin, func(t *rapid.T) BuilderCase {
		if rapid.IntRange(0, 2).Draw(t, "relative?") == 0 {
			from := rapid.SampledFrom([]string{"", "a", "a/b", "v1..", "rel../x"}).Draw(t, "from")
			names := []string{"x", "mod", "rel..", "..shared", "...", "v1..", ".hidden", "a"}
			rels := rapid.SliceOfN(rapid.Custom(func(t *rapid.T) string {
				ups := rapid.IntRange(0, 3).Draw(t, "ups")
				tail := rapid.SliceOfN(rapid.SampledFrom(names), 0, 3).Draw(t, "tail")
				if ups == 0 {
					return "./" + strings.Join(tail, "/")
				}
				s := strings.TrimSuffix(strings.Repeat("../", ups), "/")
				if len(tail) > 0 {
					return s + "/" + strings.Join(tail, "/")
				}
				if s == ".." {
					return "../"
				}
				return s
			}), 1, 3).Draw(t, "rels")
			m := world.Module{Sub: from, Deps: map[string][]world.Dep{}}
			for _, r := range rels {
				m.Deps["0"] = append(m.Deps["0"], world.Dep{Kind: "local", Addr: r})
			}
			if rapid.Bool().Draw(t, "finderwarns") {
				// the finder has something to say itself, too
				m.Diags = map[string][]world.Diag{"0": {{Severity: "W", Summary: "Something odd", Detail: "", Subject: "main.tf"}}}
			}
			addr := "https://example.com/real.tgz"
			call := addr
			if from != "" {
				call += "//" + from
			}
			fromFile := rapid.IntRange(0, 3).Draw(t, "fromfile") == 0
			if fromFile {
				if from != "" {
					call += "/deps-f0.json"
				} else {
					call += "//deps-f0.json"
				}
			}
			return BuilderCase{From: from, Rels: rels, FromFile: fromFile, World: world.World{
				Remotes: []world.RemotePkg{{Addr: addr, Content: "real", Modules: []world.Module{m}}},
				Script:  []world.AddCall{{Kind: "remote", Addr: call}}}}
		}
		var w world.World
		w.Remotes = []world.RemotePkg{{Addr: "https://example.com/real.tgz", Content: "real",
			Modules: []world.Module{{Sub: ""}, {Sub: "root"}, {Sub: "root/x"}, {Sub: "x"}, {Sub: "modules/a"}, {Sub: "root/modules/a"}}}}
		r := rapid.SampledFrom([]string{"", "root", "root", "x"}).Draw(t, "registrysub")
		real := w.Remotes[0].Addr
		if r != "" {
			real += "//" + r
		}
		w.Registry = []world.RegistryPkg{{Addr: "example.com/ns/name/aws", Versions: []world.RegVersion{{V: "1.0.0", Real: real}}}}
		n := rapid.IntRange(1, 4).Draw(t, "ncalls")
		for i := 0; i < n; i++ {
			c := world.AddCall{Kind: "registry", Addr: w.Registry[0].Addr}
			if s := rapid.SampledFrom([]string{"", "x", "modules/a", "y/z", "x"}).Draw(t, "sub"); s != "" {
				c.Addr += "//" + s
			}
			if rapid.IntRange(0, 3).Draw(t, "final?") == 0 {
				c.Kind, c.Version = "final", "1.0.0"
			}
			w.Script = append(w.Script, c)
		}
		return BuilderCase{World: w}
	})
}
