// C11 — relative resolution stays inside the package and follows path algebra.
//
// Oracle: a segment-stack model written without reference to go-slug's
// path.Join based implementation. See DESIGN.md §5 C11.
package c11

import (
	"fmt"
	"strings"
	"testing"

	"github.com/apparentlymart/go-versions/versions"
	"github.com/hashicorp/go-slug/sourceaddrs"
	"pgregory.net/rapid"

	"verif/lib/ev"
)

func TestMain(m *testing.M) { ev.Main(m, "C11") }

// Base describes a base address abstractly; the harness renders it.
type Base struct {
	Kind string   `json:"kind"` // local | remote | registry | registryfinal
	Ups  int      `json:"ups"`  // leading ".." of a local base
	Segs []string `json:"segs"` // path / sub-path name segments
	Ver  string   `json:"ver,omitempty"` // registryfinal: selected version (default 1.2.3)
}

func (b Base) version() string {
	if b.Ver == "" {
		return regVersion
	}
	return b.Ver
}

const (
	remotePkg   = "git::https://example.com/repo.git"
	registryPkg = "example.com/ns/name/sys"
	regVersion  = "1.2.3"
)

func (b Base) render() string {
	switch b.Kind {
	case "local":
		return renderLocal(b.Ups, b.Segs)
	case "remote":
		if len(b.Segs) == 0 {
			return remotePkg
		}
		return remotePkg + "//" + strings.Join(b.Segs, "/")
	case "registry":
		if len(b.Segs) == 0 {
			return registryPkg
		}
		return registryPkg + "//" + strings.Join(b.Segs, "/")
	case "registryfinal":
		if len(b.Segs) == 0 {
			return registryPkg + "@" + b.version()
		}
		return registryPkg + "@" + b.version() + "//" + strings.Join(b.Segs, "/")
	}
	panic("bad kind " + b.Kind)
}

// renderLocal is the canonical local form as documented on ParseLocalSource:
// "./" or "../" prefix, cleaned, "." and ".." spelled "./" and "../".
func renderLocal(ups int, names []string) string {
	if ups == 0 {
		if len(names) == 0 {
			return "./"
		}
		return "./" + strings.Join(names, "/")
	}
	parts := make([]string, 0, ups+len(names))
	for i := 0; i < ups; i++ {
		parts = append(parts, "..")
	}
	parts = append(parts, names...)
	s := strings.Join(parts, "/")
	if s == ".." {
		return "../"
	}
	return s
}

// model applies rel segment by segment. ok=false means "climbs above the root
// of a remote/registry package".
func model(b Base, rel []string) (ups int, names []string, ok bool) {
	ups = b.Ups
	names = append([]string(nil), b.Segs...)
	for _, s := range rel {
		switch s {
		case ".", "":
		case "..":
			if len(names) > 0 {
				names = names[:len(names)-1]
			} else if b.Kind == "local" {
				ups++
			} else {
				return 0, nil, false
			}
		default:
			names = append(names, s)
		}
	}
	return ups, names, true
}

// relSegs splits an accepted (canonical) local address into segments.
func relSegs(s string) []string {
	var out []string
	for _, p := range strings.Split(s, "/") {
		if p != "" {
			out = append(out, p)
		}
	}
	return out
}

type parsed struct {
	src   sourceaddrs.Source
	final sourceaddrs.FinalSource
}

func parseBase(b Base) (parsed, error) {
	s := b.render()
	var p parsed
	var err error
	if b.Kind != "registryfinal" {
		p.src, err = sourceaddrs.ParseSource(s)
		if err != nil {
			return p, fmt.Errorf("harness: base %q rejected by ParseSource: %v", s, err)
		}
	}
	if b.Kind != "registry" {
		p.final, err = sourceaddrs.ParseFinalSource(s)
		if err != nil {
			return p, fmt.Errorf("harness: base %q rejected by ParseFinalSource: %v", s, err)
		}
	}
	return p, nil
}

func expectString(b Base, ups int, names []string) string {
	nb := Base{Kind: b.Kind, Ups: ups, Segs: names, Ver: b.Ver}
	return nb.render()
}

// ---------------------------------------------------------------------------
// sub-check "resolve": one (base, relative-string) pair through both APIs.

type ResolveCase struct {
	Base Base   `json:"base"`
	Rel  string `json:"rel"`
}

var subResolve = ev.Register("resolve", checkResolve)

func checkResolve(c ResolveCase) error {
	rel, err := sourceaddrs.ParseLocalSource(c.Rel)
	if err != nil {
		ev.Label("rel-rejected-by-parser")
		return nil
	}
	ev.Label("rel-accepted")
	segs := relSegs(rel.String())
	hasUp := false
	for _, s := range segs {
		if s == ".." {
			hasUp = true
		}
	}
	p, err := parseBase(c.Base)
	if err != nil {
		return err
	}
	ups, names, ok := model(c.Base, segs)
	if hasUp {
		nUp := 0
		for _, s := range segs {
			if s == ".." {
				nUp++
			}
		}
		lbl := "has-dotdot"
		if c.Base.Kind != "local" {
			switch {
			case nUp == len(c.Base.Segs):
				lbl = "dotdot-exactly-depth"
			case nUp == len(c.Base.Segs)+1:
				lbl = "dotdot-depth-plus-1"
			}
		}
		ev.NonTrivial(c, lbl)
	}
	want := ""
	if ok {
		want = expectString(c.Base, ups, names)
	}
	if p.src != nil {
		got, err := sourceaddrs.ResolveRelativeSource(p.src, rel)
		if e := judge("ResolveRelativeSource", c, ok, want, names, got, err, func(s string) (fmt.Stringer, error) { return sourceaddrs.ParseSource(s) }); e != nil {
			return e
		}
		if ok && fmt.Sprintf("%T", got) != fmt.Sprintf("%T", p.src) {
			return fmt.Errorf("ResolveRelativeSource(%q, %q): kind changed from %T to %T", c.Base.render(), c.Rel, p.src, got)
		}
	}
	if p.final != nil {
		got, err := sourceaddrs.ResolveRelativeFinalSource(p.final, rel)
		if e := judge("ResolveRelativeFinalSource", c, ok, want, names, got, err, func(s string) (fmt.Stringer, error) { return sourceaddrs.ParseFinalSource(s) }); e != nil {
			return e
		}
		if ok && fmt.Sprintf("%T", got) != fmt.Sprintf("%T", p.final) {
			return fmt.Errorf("ResolveRelativeFinalSource(%q, %q): kind changed from %T to %T", c.Base.render(), c.Rel, p.final, got)
		}
	}
	return nil
}

func isNilStringer(v fmt.Stringer) bool {
	return v == nil || fmt.Sprintf("%v", v) == "<nil>"
}

func judge(fn string, c ResolveCase, ok bool, want string, wantNames []string, got fmt.Stringer, err error, reparse func(string) (fmt.Stringer, error)) error {
	base := c.Base.render()
	if !ok {
		if err == nil {
			return fmt.Errorf("%s(%q, %q) climbs above the package root but returned %q without error", fn, base, c.Rel, got)
		}
		if got != nil && !isNilStringer(got) {
			return fmt.Errorf("%s(%q, %q) failed (%v) but still yielded address %q", fn, base, c.Rel, err, got)
		}
		return nil
	}
	if err != nil {
		return fmt.Errorf("%s(%q, %q) should give %q but failed: %v", fn, base, c.Rel, want, err)
	}
	if e := sameParts(got, c.Base, wantNames); e != nil {
		return fmt.Errorf("%s(%q, %q) = %q: %v", fn, base, c.Rel, got.String(), e)
	}
	if !plainNames(wantNames) || !plainNames(c.Base.Segs) {
		// printing of sub-paths that need URL escaping is C06's business
		return nil
	}
	if got.String() != want {
		return fmt.Errorf("%s(%q, %q) = %q, segment-stack model says %q", fn, base, c.Rel, got.String(), want)
	}
	// The expected string is in the parser's canonical form, so the result
	// must be the same value the parser produces for it.
	back, perr := reparse(want)
	if perr != nil {
		return fmt.Errorf("harness: model string %q rejected by parser: %v", want, perr)
	}
	if back != got {
		return fmt.Errorf("%s(%q, %q) = %#v differs from parsed %q = %#v", fn, base, c.Rel, got, want, back)
	}
	return nil
}

// plainNames: every segment consists of characters that need no escaping in a URL path.
func plainNames(names []string) bool {
	for _, n := range names {
		for _, r := range n {
			if !(r >= 'a' && r <= 'z' || r >= 'A' && r <= 'Z' || r >= '0' && r <= '9' || r == '.' || r == '-' || r == '_') {
				return false
			}
		}
	}
	return true
}

// sameParts checks kind, package, version and sub-path through accessors.
func sameParts(got fmt.Stringer, b Base, names []string) error {
	sub := strings.Join(names, "/")
	switch b.Kind {
	case "local":
		if _, ok := got.(sourceaddrs.LocalSource); !ok {
			return fmt.Errorf("kind changed to %T", got)
		}
	case "remote":
		g, ok := got.(sourceaddrs.RemoteSource)
		if !ok {
			return fmt.Errorf("kind changed to %T", got)
		}
		if g.Package().String() != remotePkg {
			return fmt.Errorf("package changed to %q", g.Package())
		}
		if g.SubPath() != sub {
			return fmt.Errorf("sub-path %q, model says %q", g.SubPath(), sub)
		}
	case "registry":
		g, ok := got.(sourceaddrs.RegistrySource)
		if !ok {
			return fmt.Errorf("kind changed to %T", got)
		}
		if g.Package().String() != registryPkg {
			return fmt.Errorf("package changed to %q", g.Package())
		}
		if g.SubPath() != sub {
			return fmt.Errorf("sub-path %q, model says %q", g.SubPath(), sub)
		}
	case "registryfinal":
		g, ok := got.(sourceaddrs.RegistrySourceFinal)
		if !ok {
			return fmt.Errorf("kind changed to %T", got)
		}
		if g.Package().String() != registryPkg {
			return fmt.Errorf("package changed to %q", g.Package())
		}
		if g.SelectedVersion().String() != b.version() {
			return fmt.Errorf("version changed to %q", g.SelectedVersion())
		}
		if g.SubPath() != sub {
			return fmt.Errorf("sub-path %q, model says %q", g.SubPath(), sub)
		}
	}
	return nil
}

// ---------------------------------------------------------------------------
// sub-check "compose": resolve(resolve(a,b),c) == resolve(a, resolve(b,c)).

type ComposeCase struct {
	Base Base   `json:"base"`
	Rel1 string `json:"rel1"`
	Rel2 string `json:"rel2"`
}

var subCompose = ev.Register("compose", checkCompose)

func checkCompose(c ComposeCase) error {
	r1, err := sourceaddrs.ParseLocalSource(c.Rel1)
	if err != nil {
		return fmt.Errorf("harness: rel1 %q not accepted: %v", c.Rel1, err)
	}
	r2, err := sourceaddrs.ParseLocalSource(c.Rel2)
	if err != nil {
		return fmt.Errorf("harness: rel2 %q not accepted: %v", c.Rel2, err)
	}
	p, err := parseBase(c.Base)
	if err != nil {
		return err
	}
	if strings.Contains(c.Rel1, "..") || strings.Contains(c.Rel2, "..") {
		ev.NonTrivial(c, "compose-with-dotdot")
	}
	// model: apply both in sequence
	s1, s2 := relSegs(r1.String()), relSegs(r2.String())
	ups, names, ok := model(c.Base, s1)
	if ok {
		ups, names, ok = model(Base{Kind: c.Base.Kind, Ups: ups, Segs: names}, s2)
	}
	want := ""
	if ok {
		want = expectString(c.Base, ups, names)
	}
	if p.src != nil {
		var lhs, rhs sourceaddrs.Source
		var lerr, rerr error
		ab, e1 := sourceaddrs.ResolveRelativeSource(p.src, r1)
		if e1 != nil {
			lerr = e1
		} else {
			lhs, lerr = sourceaddrs.ResolveRelativeSource(ab, r2)
		}
		bc, e2 := sourceaddrs.ResolveRelativeSource(r1, r2)
		if e2 != nil {
			return fmt.Errorf("ResolveRelativeSource(%q, %q) (two local addresses) failed: %v", c.Rel1, c.Rel2, e2)
		}
		rhs, rerr = sourceaddrs.ResolveRelativeSource(p.src, bc)
		if e := judgeCompose("ResolveRelativeSource", c, ok, want, names, lhs, lerr, rhs, rerr); e != nil {
			return e
		}
	}
	if p.final != nil {
		var lhs, rhs sourceaddrs.FinalSource
		var lerr, rerr error
		ab, e1 := sourceaddrs.ResolveRelativeFinalSource(p.final, r1)
		if e1 != nil {
			lerr = e1
		} else {
			lhs, lerr = sourceaddrs.ResolveRelativeFinalSource(ab, r2)
		}
		bc, e2 := sourceaddrs.ResolveRelativeFinalSource(r1, r2)
		if e2 != nil {
			return fmt.Errorf("ResolveRelativeFinalSource(%q, %q) (two local addresses) failed: %v", c.Rel1, c.Rel2, e2)
		}
		rhs, rerr = sourceaddrs.ResolveRelativeFinalSource(p.final, bc)
		if e := judgeCompose("ResolveRelativeFinalSource", c, ok, want, names, lhs, lerr, rhs, rerr); e != nil {
			return e
		}
	}
	return nil
}

func judgeCompose(fn string, c ComposeCase, ok bool, want string, wantNames []string, lhs fmt.Stringer, lerr error, rhs fmt.Stringer, rerr error) error {
	base := c.Base.render()
	if (lerr == nil) != (rerr == nil) {
		return fmt.Errorf("%s: base %q, b=%q, c=%q: stepwise err=%v but joined err=%v", fn, base, c.Rel1, c.Rel2, lerr, rerr)
	}
	if ok != (lerr == nil) {
		return fmt.Errorf("%s: base %q, b=%q, c=%q: model ok=%v but err=%v", fn, base, c.Rel1, c.Rel2, ok, lerr)
	}
	if !ok {
		return nil
	}
	if lhs != rhs {
		return fmt.Errorf("%s: base %q, b=%q, c=%q: stepwise %q != joined %q", fn, base, c.Rel1, c.Rel2, lhs, rhs)
	}
	if e := sameParts(lhs, c.Base, wantNames); e != nil {
		return fmt.Errorf("%s: base %q, b=%q, c=%q: got %q: %v", fn, base, c.Rel1, c.Rel2, lhs, e)
	}
	if plainNames(wantNames) && plainNames(c.Base.Segs) && lhs.String() != want {
		return fmt.Errorf("%s: base %q, b=%q, c=%q: got %q, model %q", fn, base, c.Rel1, c.Rel2, lhs, want)
	}
	return nil
}

// ---------------------------------------------------------------------------
// sub-check "finaladdr": joining a registry sub-path onto the registry's answer.

type FinalAddrCase struct {
	RegSub  []string `json:"reg_sub"`
	RealSub []string `json:"real_sub"`
	Final   bool     `json:"final"`
}

var subFinalAddr = ev.Register("finaladdr", checkFinalAddr)

func checkFinalAddr(c FinalAddrCase) error {
	regStr := Base{Kind: "registry", Segs: c.RegSub}.render()
	realStr := Base{Kind: "remote", Segs: c.RealSub}.render()
	reg, err := sourceaddrs.ParseRegistrySource(regStr)
	if err != nil {
		return fmt.Errorf("harness: %q rejected: %v", regStr, err)
	}
	realSrc, err := sourceaddrs.ParseRemoteSource(realStr)
	if err != nil {
		return fmt.Errorf("harness: %q rejected: %v", realStr, err)
	}
	if len(c.RegSub) > 0 && len(c.RealSub) > 0 {
		ev.NonTrivial(c, "both-subpaths")
	}
	var got sourceaddrs.RemoteSource
	if c.Final {
		got = reg.Versioned(versions.MustParseVersion(regVersion)).FinalSourceAddr(realSrc)
	} else {
		got = reg.FinalSourceAddr(realSrc)
	}
	wantSegs := append(append([]string(nil), c.RealSub...), c.RegSub...)
	want := Base{Kind: "remote", Segs: wantSegs}.render()
	if plainNames(wantSegs) && got.String() != want {
		return fmt.Errorf("(%q).FinalSourceAddr(%q) = %q, want %q", regStr, realStr, got, want)
	}
	if got.Package() != realSrc.Package() {
		return fmt.Errorf("(%q).FinalSourceAddr(%q) changed the package to %q", regStr, realStr, got.Package())
	}
	if got.SubPath() != strings.Join(wantSegs, "/") {
		return fmt.Errorf("(%q).FinalSourceAddr(%q) sub-path %q, want %q", regStr, realStr, got.SubPath(), strings.Join(wantSegs, "/"))
	}
	// same as resolving the registry sub-path as a relative address
	if len(c.RegSub) > 0 {
		rel, err := sourceaddrs.ParseLocalSource("./" + strings.Join(c.RegSub, "/"))
		if err == nil {
			viaResolve, err := sourceaddrs.ResolveRelativeSource(realSrc, rel)
			if err != nil || viaResolve != sourceaddrs.Source(got) {
				return fmt.Errorf("FinalSourceAddr %q disagrees with relative resolution %v (err %v)", got, viaResolve, err)
			}
		}
	}
	return nil
}

// ---------------------------------------------------------------------------
// sub-check "abs": an absolute second argument is returned unchanged.

type AbsCase struct {
	Base   Base `json:"base"`
	Second Base `json:"second"` // never local
}

var subAbs = ev.Register("abs", checkAbs)

func checkAbs(c AbsCase) error {
	p, err := parseBase(c.Base)
	if err != nil {
		return err
	}
	q, err := parseBase(c.Second)
	if err != nil {
		return err
	}
	ev.NonTrivial(c, "absolute-second-arg")
	if p.src != nil && q.src != nil {
		got, err := sourceaddrs.ResolveRelativeSource(p.src, q.src)
		if err != nil || got != q.src {
			return fmt.Errorf("ResolveRelativeSource(%q, absolute %q) = %v, %v; want the second argument unchanged", c.Base.render(), c.Second.render(), got, err)
		}
	}
	if p.final != nil && q.final != nil {
		got, err := sourceaddrs.ResolveRelativeFinalSource(p.final, q.final)
		if err != nil || got != q.final {
			return fmt.Errorf("ResolveRelativeFinalSource(%q, absolute %q) = %v, %v; want the second argument unchanged", c.Base.render(), c.Second.render(), got, err)
		}
	}
	return nil
}

// ---------------------------------------------------------------------------
// Enumerations.

var baseNames = []string{"b1", "b2", "b3", "b4"}

func allBases() []Base {
	var out []Base
	for ups := 0; ups <= 2; ups++ {
		for d := 0; d <= 4; d++ {
			out = append(out, Base{Kind: "local", Ups: ups, Segs: append([]string{}, baseNames[:d]...)})
		}
	}
	for _, k := range []string{"remote", "registry", "registryfinal"} {
		for d := 0; d <= 4; d++ {
			out = append(out, Base{Kind: k, Segs: append([]string{}, baseNames[:d]...)})
		}
	}
	// a versioned registry base whose version carries pre-release and build metadata
	for d := 0; d <= 4; d++ {
		out = append(out, Base{Kind: "registryfinal", Segs: append([]string{}, baseNames[:d]...), Ver: "1.0.0-rc.1+build.5"})
	}
	return out
}

var alphabet = []string{"n1", "n2", ".", ".."}

// allRelStrings renders every segment string of length 1..maxLen over the
// alphabet as a candidate local address (with and without trailing slash).
func allRelStrings(maxLen int) []string {
	var out []string
	var rec func(cur []string)
	rec = func(cur []string) {
		if len(cur) > 0 {
			s := strings.Join(cur, "/")
			if !strings.HasPrefix(s, "./") && !strings.HasPrefix(s, "../") && s != "." && s != ".." {
				s = "./" + s
			}
			out = append(out, s, s+"/")
		}
		if len(cur) == maxLen {
			return
		}
		for _, a := range alphabet {
			rec(append(cur, a))
		}
	}
	rec(nil)
	return out
}

func TestExhaustivePairs(t *testing.T) {
	k, n := ev.Shard()
	bases := allBases()
	rels := allRelStrings(5)
	i := 0
	for _, b := range bases {
		for _, rel := range rels {
			i++
			if i%n != k {
				continue
			}
			subResolve.Do(ResolveCase{Base: b, Rel: rel})
		}
	}
	ev.Exhaustive(fmt.Sprintf("pairs: %d bases (all kinds, sub-path depth 0..4, local with 0..2 leading '..') x %d strings over {n1,n2,.,..} of length<=5", len(bases), len(rels)), true)
}

func acceptedRels(maxLen int) []string {
	seen := map[string]bool{}
	var out []string
	for _, s := range allRelStrings(maxLen) {
		if l, err := sourceaddrs.ParseLocalSource(s); err == nil && !seen[l.String()] {
			seen[l.String()] = true
			out = append(out, l.String())
		}
	}
	return out
}

func TestExhaustiveTriples(t *testing.T) {
	k, n := ev.Shard()
	bases := allBases()
	maxLen := 5
	if ev.Tier() == "quick" {
		maxLen = 4
	}
	rels := acceptedRels(maxLen)
	i := 0
	for _, b := range bases {
		for _, r1 := range rels {
			for _, r2 := range rels {
				i++
				if i%n != k {
					continue
				}
				subCompose.Do(ComposeCase{Base: b, Rel1: r1, Rel2: r2})
			}
		}
	}
	ev.Exhaustive(fmt.Sprintf("triples: %d bases x %d x %d accepted relatives (segments<=%d)", len(bases), len(rels), len(rels), maxLen), true)
}

func TestExhaustiveFinalAddr(t *testing.T) {
	k, n := ev.Shard()
	if k != 0 {
		t.Skip("single shard")
	}
	_ = n
	names := []string{"n1", "n2"}
	var subs [][]string
	var rec func(cur []string)
	rec = func(cur []string) {
		subs = append(subs, append([]string{}, cur...))
		if len(cur) == 3 {
			return
		}
		for _, a := range names {
			rec(append(cur, a))
		}
	}
	rec(nil)
	for _, a := range subs {
		for _, b := range subs {
			for _, f := range []bool{false, true} {
				subFinalAddr.Do(FinalAddrCase{RegSub: a, RealSub: b, Final: f})
			}
		}
	}
	bases := allBases()
	for _, a := range bases {
		for _, b := range bases {
			if b.Kind == "local" {
				continue
			}
			subAbs.Do(AbsCase{Base: a, Second: b})
		}
	}
	ev.Exhaustive(fmt.Sprintf("finaladdr: %d x %d sub-path pairs of depth<=3, both variants; abs: all base pairs", len(subs), len(subs)), true)
}

// ---------------------------------------------------------------------------
// rapid: longer paths, odd names.

var namePool = []string{"a", "b", "modules", "x.tf", "...", ".hidden", "a b", "ü", "n-1", "_", "a.b.c", "..a", "a..", "%2e%2e", "C"}

func genName() *rapid.Generator[string] { return rapid.SampledFrom(namePool) }

func genBase(t *rapid.T, label string) Base {
	kind := rapid.SampledFrom([]string{"local", "remote", "registry", "registryfinal"}).Draw(t, label+"kind")
	b := Base{Kind: kind, Segs: rapid.SliceOfN(genName(), 0, 8).Draw(t, label+"segs")}
	if b.Segs == nil {
		b.Segs = []string{}
	}
	if kind == "local" {
		b.Ups = rapid.IntRange(0, 4).Draw(t, label+"ups")
	}
	if kind == "registryfinal" {
		b.Ver = rapid.SampledFrom([]string{"", "1.2.3", "1.0.0+build.5", "2.0.0-beta.1", "0.0.1-rc1+meta", "10.20.30"}).Draw(t, label+"ver")
	}
	return b
}

func genRel(t *rapid.T, label string) string {
	ups := rapid.IntRange(0, 9).Draw(t, label+"ups")
	names := rapid.SliceOfN(genName(), 0, 6).Draw(t, label+"names")
	return renderLocal(ups, names)
}

func TestPropResolve(t *testing.T) {
	ev.Check(t, subResolve, func(t *rapid.T) ResolveCase {
		return ResolveCase{Base: genBase(t, "base"), Rel: genRel(t, "rel")}
	})
}

func TestPropCompose(t *testing.T) {
	ev.Check(t, subCompose, func(t *rapid.T) ComposeCase {
		return ComposeCase{Base: genBase(t, "base"), Rel1: genRel(t, "r1"), Rel2: genRel(t, "r2")}
	})
}

func TestPropAbs(t *testing.T) {
	ev.Check(t, subAbs, func(t *rapid.T) AbsCase {
		a := genBase(t, "a")
		b := genBase(t, "b")
		if b.Kind == "local" {
			b.Kind = "remote"
			b.Ups = 0
		}
		return AbsCase{Base: a, Second: b}
	})
}

func TestPropFinalAddr(t *testing.T) {
	ev.Check(t, subFinalAddr, func(t *rapid.T) FinalAddrCase {
		a := rapid.SliceOfN(genName(), 0, 6).Draw(t, "reg")
		b := rapid.SliceOfN(genName(), 0, 6).Draw(t, "real")
		if a == nil {
			a = []string{}
		}
		if b == nil {
			b = []string{}
		}
		return FinalAddrCase{RegSub: a, RealSub: b, Final: rapid.Bool().Draw(t, "final")}
	})
}

func TestReplay(t *testing.T) { ev.Replay(t) }
func TestKnown(t *testing.T)  { ev.KnownFindings(t) }
