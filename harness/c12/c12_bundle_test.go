package c12

import (
	"context"
	"fmt"
	"os"
	"os/exec"
	"path/filepath"
	"strings"
	"sync"
	"testing"
	"time"

	"github.com/hashicorp/go-slug/sourceaddrs"
	"github.com/hashicorp/go-slug/sourcebundle"
	"pgregory.net/rapid"

	"verif/lib/ev"
	"verif/lib/fsx"
	"verif/lib/tarx"
	"verif/lib/world"
)

const nFinders = 2

// ---------------------------------------------------------------------------
// (c) bundle builds under injected faults, with OpenDir probes at every callback boundary

type BundleCase struct {
	World world.World   `json:"world"`
	Only  []world.Fault `json:"only,omitempty"` // nil = enumerate every single position (and pairs for small worlds)
}

var subBundleFaults = ev.Register("bundlefaults", checkBundleFaults)

type probeState struct {
	target  string
	arena   string
	n       int
	problem string
}

func (p *probeState) probe(where string) {
	p.n++
	if p.problem != "" {
		return
	}
	if b, err := sourcebundle.OpenDir(p.target); err == nil && b != nil {
		p.problem = fmt.Sprintf("the target directory opens as a bundle while the build is still under way (at %s)", where)
		return
	}
	if p.n%7 == 1 {
		// a crash here would leave exactly this directory behind: copy it and open the copy
		cp := filepath.Join(p.arena, fmt.Sprintf("crash-copy-%d", p.n))
		if err := exec.Command("cp", "-a", p.target, cp).Run(); err == nil {
			if b, err := sourcebundle.OpenDir(cp); err == nil && b != nil {
				p.problem = fmt.Sprintf("a copy of the target directory taken at %s opens as a bundle", where)
			}
			fsx.RemoveAll(cp)
		}
	}
}

// runWithFaults executes the script; returns a description of what is wrong, or "".
func runWithFaults(w world.World, faults []world.Fault, arena, tag string) (problem string, fired bool, counts map[string]int) {
	h := world.NewHarness(w, nFinders)
	h.Faults = faults
	target := filepath.Join(arena, tag)
	ps := &probeState{target: target, arena: arena}
	run, err := world.Start(h, target)
	if err != nil {
		return "harness: " + err.Error(), false, nil
	}
	h.OnBoundary = ps.probe
	ctx := h.Context("full")
	failedAt := -1
	for i, c := range w.Script {
		before := map[string]int{}
		for _, k := range []string{"fetch", "versions", "versions-empty", "source", "finder-error"} {
			before[k] = h.Count(k)
		}
		res := run.DoCall(ctx, c)
		if failedAt >= 0 {
			if res.Panicked == nil {
				return fmt.Sprintf("Add call %d was accepted (diagnostics: %d) although call %d had reported an error: the builder must refuse all further use", i, len(res.Diags), failedAt), true, nil
			}
			continue
		}
		if msg, ok := res.Panicked.(string); ok && strings.HasPrefix(msg, "injected panic") {
			// a callback of the caller's panicked and the caller caught it: the call failed, the builder is spent
			failedAt, fired = i, true
			continue
		}
		if res.Panicked != nil {
			return fmt.Sprintf("Add call %d panicked: %v", i, res.Panicked), true, nil
		}
		// did one of the planned faults fire during this call?
		firedNow := false
		for _, f := range faults {
			if before[f.Kind] < f.N && h.Count(f.Kind) >= f.N {
				firedNow = true
			}
		}
		if firedNow {
			fired = true
			if !res.Diags.HasErrors() {
				return fmt.Sprintf("fault %v fired during Add call %d, but the call returned no error diagnostic (%d diagnostics)", faults, i, len(res.Diags)), true, nil
			}
		}
		if res.Diags.HasErrors() {
			if !firedNow {
				return fmt.Sprintf("Add call %d reported errors although no fault fired in it: %v", i, diagTexts(res.Diags)), fired, nil
			}
			failedAt = i
		}
	}
	h.OnBoundary = nil
	run.Close()
	counts = map[string]int{}
	for _, k := range []string{"fetch", "versions", "source"} {
		counts[k] = h.Count(k)
	}
	for _, e := range h.Log {
		if e.Kind == "analyse" {
			counts["finder-error"]++
		}
	}
	if ps.problem != "" {
		return ps.problem, fired, counts
	}
	// the trace must stay truthful under faults: start -> one success or failure, 'already' only after a success
	if err := world.CheckBracketing(h.Log); err != nil {
		return "trace events: " + err.Error(), fired, counts
	}
	if failedAt >= 0 {
		if run.ClosePanic == nil {
			return fmt.Sprintf("Close returned (bundle=%v, err=%v) after Add call %d had failed: no bundle may come out of a failed build", run.Bundle != nil, run.CloseErr, failedAt), true, counts
		}
		if b, err := sourcebundle.OpenDir(target); err == nil && b != nil {
			return "the target directory of a failed build opens as a bundle", true, counts
		}
		return "", true, counts
	}
	if run.ClosePanic != nil || run.CloseErr != nil {
		return fmt.Sprintf("Close failed after a build in which every call succeeded: %v %v", run.CloseErr, run.ClosePanic), fired, counts
	}
	if _, err := sourcebundle.OpenDir(target); err != nil {
		return fmt.Sprintf("OpenDir fails after a successful Close: %v", err), fired, counts
	}
	return "", fired, counts
}

func diagTexts(ds sourcebundle.Diagnostics) []string {
	var out []string
	for _, d := range ds {
		out = append(out, world.DiagString(d))
	}
	return out
}

func checkBundleFaults(c BundleCase) error {
	exp := world.Reference(c.World, nFinders)
	if exp.Error != "" || exp.Ambiguous {
		ev.Label("not-judged")
		return nil
	}
	arena, cleanup := fsx.Scratch("c12c-")
	defer cleanup()
	h := ev.Hash(c.World)
	if c.Only != nil {
		ev.Eval()
		if p, _, _ := runWithFaults(c.World, c.Only, arena, "only"); p != "" {
			return fmt.Errorf("faults %v: %s", c.Only, p)
		}
		return nil
	}
	// clean run: counts the positions and checks the no-fault behaviour
	p, _, counts := runWithFaults(c.World, nil, arena, "clean")
	if p != "" {
		return fmt.Errorf("fault-free build: %s", p)
	}
	var singles []world.Fault
	for _, k := range []string{"fetch", "versions", "source", "finder-error"} {
		for n := 1; n <= counts[k]; n++ {
			singles = append(singles, world.Fault{Kind: k, N: n})
			if k == "versions" {
				// the registry answers successfully with an empty list: nothing can be selected
				singles = append(singles, world.Fault{Kind: "versions-empty", N: n})
			}
			if k == "fetch" || k == "finder-error" {
				// the callback panics instead of returning an error (and the caller recovers)
				singles = append(singles, world.Fault{Kind: map[string]string{"fetch": "fetch-panic", "finder-error": "finder-panic"}[k], N: n})
			}
		}
	}
	for i, f := range singles {
		ev.Eval()
		tag := fmt.Sprintf("s%d", i)
		p, fired, _ := runWithFaults(c.World, []world.Fault{f}, arena, tag)
		fsx.RemoveAll(filepath.Join(arena, tag))
		if !fired && p == "" {
			return fmt.Errorf("harness: fault %v did not fire although the clean run made %d such calls", f, counts[strings.TrimSuffix(strings.TrimSuffix(f.Kind, "-empty"), "-panic")])
		}
		if f.N > 1 || i > 0 {
			ev.NonTrivialKey(fmt.Sprintf("bundle:%x:%s@%d", h, f.Kind, f.N), "fault-after-successful-steps")
		}
		if p != "" {
			c.Only = []world.Fault{f}
			return fmt.Errorf("fault %v: %s", f, p)
		}
	}
	if len(singles) <= 8 {
		for i := range singles {
			for j := range singles {
				if i >= j {
					continue
				}
				ev.Eval()
				tag := fmt.Sprintf("p%d-%d", i, j)
				p, _, _ := runWithFaults(c.World, []world.Fault{singles[i], singles[j]}, arena, tag)
				fsx.RemoveAll(filepath.Join(arena, tag))
				ev.NonTrivialKey(fmt.Sprintf("bundle:%x:%v+%v", h, singles[i], singles[j]), "fault-pair")
				if p != "" {
					c.Only = []world.Fault{singles[i], singles[j]}
					return fmt.Errorf("faults %v + %v: %s", singles[i], singles[j], p)
				}
			}
		}
	}
	// the context handed to the Add calls is cancelled at a callback boundary. The harness's fetcher, registry and
	// finders do not look at it, so nothing fails: the build either says it gave up, or it is as complete as the clean one
	cleanPkgs, nb, p0 := runWithCancel(c.World, -1, arena, "cc")
	fsx.RemoveAll(filepath.Join(arena, "cc"))
	if p0 != "" {
		return fmt.Errorf("fault-free build: %s", p0)
	}
	for n := 1; n <= nb && n <= 10; n++ {
		ev.Eval()
		tag := fmt.Sprintf("c%d", n)
		pkgs, _, p := runWithCancel(c.World, n, arena, tag)
		fsx.RemoveAll(filepath.Join(arena, tag))
		ev.NonTrivialKey(fmt.Sprintf("bundle:%x:cancel@%d", h, n), "context-cancelled-mid-build")
		if p != "" {
			return fmt.Errorf("context cancelled at callback boundary %d: %s", n, p)
		}
		if pkgs >= 0 && pkgs != cleanPkgs {
			return fmt.Errorf("context cancelled at callback boundary %d of %d: no call reported an error and Close returned a bundle with %d packages, the undisturbed build has %d", n, nb, pkgs, cleanPkgs)
		}
	}
	return nil
}

// runWithCancel runs the script with a context that is cancelled at the n-th callback boundary (n < 0: never).
// It returns the number of packages in the bundle (-1 if the build reported an error), the number of boundaries seen,
// and a description of what is wrong, if anything.
func runWithCancel(w world.World, n int, arena, tag string) (pkgs, boundaries int, problem string) {
	h := world.NewHarness(w, nFinders)
	run, err := world.Start(h, filepath.Join(arena, tag))
	if err != nil {
		return -1, 0, "harness: " + err.Error()
	}
	ctx, cancel := context.WithCancel(h.Context("full"))
	defer cancel()
	h.OnBoundary = func(string) {
		boundaries++
		if boundaries == n {
			cancel()
		}
	}
	failed := false
	for i, c := range w.Script {
		res := run.DoCall(ctx, c)
		if failed {
			if res.Panicked == nil {
				return -1, boundaries, fmt.Sprintf("Add call %d accepted after an earlier call had reported an error", i)
			}
			continue
		}
		if res.Panicked != nil {
			return -1, boundaries, fmt.Sprintf("Add call %d panicked: %v", i, res.Panicked)
		}
		if res.Diags.HasErrors() {
			failed = true
		}
	}
	h.OnBoundary = nil
	run.Close()
	if failed {
		if run.ClosePanic == nil {
			return -1, boundaries, "Close returned after an Add call had reported an error"
		}
		return -1, boundaries, ""
	}
	if run.ClosePanic != nil || run.CloseErr != nil || run.Bundle == nil {
		return -1, boundaries, fmt.Sprintf("no call reported an error, but Close failed: %v %v", run.CloseErr, run.ClosePanic)
	}
	return len(run.Bundle.RemotePackages()), boundaries, ""
}

func TestPropBundleFaults(t *testing.T) {
	ev.Check(t, subBundleFaults, func(t *rapid.T) BundleCase {
		return BundleCase{World: world.Gen(t, world.Config{MaxRemotes: 3, MaxRegistry: 2, NFinders: nFinders, Clones: true})}
	})
}

// ---------------------------------------------------------------------------
// (d) finder diagnostics reach the caller and the tracer intact

// DiagCase: a world and the tracer installed for the build ("full", "none",
// "partial:<bits>" - bit 9 leaves out the Diagnostics callback).
type DiagCase struct {
	World  world.World `json:"world"`
	Tracer string      `json:"tracer"`
}

var subDiagnostics = ev.Register("diagnostics", func(c DiagCase) error { return checkDiagnostics(c.World, c.Tracer) })

func validSub(name string) bool {
	if name == "" {
		return false
	}
	if strings.HasPrefix(name, "/") {
		return false
	}
	for _, seg := range strings.Split(name, "/") {
		if seg == "" || seg == "." || seg == ".." {
			return false
		}
	}
	return !strings.Contains(name, "\\")
}

func inPackage(pkg, name string) string {
	if !validSub(name) {
		return name
	}
	if i := strings.Index(pkg, "?"); i >= 0 {
		return pkg[:i] + "//" + name + pkg[i:]
	}
	return pkg + "//" + name
}

func expectDiag(pkg string, d world.Diag) string {
	rng := func(name string, endLine, endCol int) string {
		if name == "" {
			return "nil"
		}
		return fmt.Sprintf("%s:1:1-%d:%d", inPackage(pkg, name), endLine, endCol)
	}
	extra := "<nil>"
	if d.Extra != "" {
		extra = d.Extra
	}
	return fmt.Sprintf("%s|%s|%s|%s|%s|%s", d.Severity, d.Summary, d.Detail, rng(d.Subject, 1, 5), rng(d.Context, 3, 1), extra)
}

func checkDiagnostics(w world.World, tracer string) error {
	if tracer == "" {
		tracer = "full"
	}
	tracerHears := tracer == "full"
	if strings.HasPrefix(tracer, "partial:") {
		var n int
		fmt.Sscanf(strings.TrimPrefix(tracer, "partial:"), "%d", &n)
		tracerHears = n&(1<<9) == 0
	}
	arena, cleanup := fsx.Scratch("c12d-")
	defer cleanup()
	h := world.NewHarness(w, nFinders)
	run, err := world.Start(h, filepath.Join(arena, "bundle"))
	if err != nil {
		return fmt.Errorf("harness: %v", err)
	}
	ctx := h.Context(tracer)
	anyDiag := false
	poisoned := false
	late := tracer == "late" || tracer == "early"
	for i, c := range w.Script {
		logStart := len(h.Log)
		if late {
			// the tracer belongs to the call: the first call comes without one and the later ones with one ("late"), or the other way round
			first := i == 0
			if (tracer == "late") == first {
				ctx, tracerHears = h.Context("none"), false
			} else {
				ctx, tracerHears = h.Context("full"), true
			}
		}
		res := run.DoCall(ctx, c)
		if poisoned {
			if res.Panicked == nil {
				return fmt.Errorf("Add call %d accepted after an error diagnostic had been returned", i)
			}
			continue
		}
		if res.Panicked != nil {
			return fmt.Errorf("Add call %d panicked: %v", i, res.Panicked)
		}
		// what the finders emitted during this call, in analysis order
		var want []string
		var traced []string
		for _, e := range h.Log[logStart:] {
			switch e.Kind {
			case "analyse":
				// key: content//sub#fN
				content, rest, _ := strings.Cut(e.Key, "//")
				sub, fid, _ := strings.Cut(rest, "#f")
				for _, p := range w.Remotes {
					if p.Content != content {
						continue
					}
					for _, m := range p.Modules {
						if m.Sub != sub {
							continue
						}
						pa, _ := sourceaddrs.ParseRemotePackage(p.Addr)
						for _, d := range m.Diags[fid] {
							want = append(want, expectDiag(pa.String(), d))
						}
					}
					break // clones share content: the first address with that content is only right if no clone exists
				}
			case "trace:diagnostics":
				if e.Note != "" {
					traced = append(traced, strings.Split(e.Note, " || ")...)
				}
			}
		}
		var got []string
		for _, d := range res.Diags {
			s := world.DiagString(d)
			if strings.HasPrefix(s, "E|Invalid relative source address") || strings.HasPrefix(s, "E|Cannot ") {
				continue // the builder's own diagnostics
			}
			got = append(got, s)
		}
		if len(want) > 0 {
			anyDiag = true
		}
		if strings.Join(got, "\n") != strings.Join(want, "\n") {
			return fmt.Errorf("Add call %d: the caller received\n  %s\nbut the finders emitted (file names rewritten into the analysed package)\n  %s", i, strings.Join(got, "\n  "), strings.Join(want, "\n  "))
		}
		if late && !tracerHears && len(traced) > 0 {
			return fmt.Errorf("Add call %d came without a tracer, yet a tracer (of another call) received\n  %s", i, strings.Join(traced, "\n  "))
		}
		if tracerHears && strings.Join(traced, "\n") != strings.Join(want, "\n") {
			return fmt.Errorf("Add call %d: the tracer received\n  %s\nbut the finders emitted\n  %s", i, strings.Join(traced, "\n  "), strings.Join(want, "\n  "))
		}
		if res.Diags.HasErrors() {
			poisoned = true
		}
	}
	if anyDiag {
		ev.NonTrivial(DiagCase{w, tracer}, "finder-diagnostics")
	}
	run.Close()
	if poisoned {
		if run.ClosePanic == nil {
			return fmt.Errorf("Close returned after an error diagnostic")
		}
		return nil
	}
	if run.ClosePanic != nil || run.CloseErr != nil {
		return fmt.Errorf("warnings alone must not poison the builder, but Close failed: %v %v", run.CloseErr, run.ClosePanic)
	}
	return nil
}

func TestPropDiagnostics(t *testing.T) {
	ev.Check(t, subDiagnostics, func(t *rapid.T) DiagCase {
		w := world.Gen(t, world.Config{MaxRemotes: 4, MaxRegistry: 1, NFinders: nFinders, Diags: true, ErrorDeps: rapid.Bool().Draw(t, "errors")})
		tracer := rapid.SampledFrom([]string{"full", "full", "none", "partial:512", "partial:1535", "partial:73", "late", "early"}).Draw(t, "tracer")
		// keep registry/relative errors out: this sub-check is about finder diagnostics
		for pi := range w.Remotes {
			for mi := range w.Remotes[pi].Modules {
				for f, ds := range w.Remotes[pi].Modules[mi].Deps {
					var keep []world.Dep
					for _, d := range ds {
						if d.Kind == "remote" {
							keep = append(keep, d)
						}
					}
					w.Remotes[pi].Modules[mi].Deps[f] = keep
				}
			}
		}
		var script []world.AddCall
		for _, c := range w.Script {
			if c.Kind == "remote" {
				script = append(script, c)
			}
		}
		if len(script) == 0 {
			script = []world.AddCall{{Kind: "remote", Addr: w.Remotes[0].Addr}}
		}
		w.Script = script
		if len(w.Remotes) >= 2 && rapid.Bool().Draw(t, "samefindings") {
			// two packages about which the finder has exactly the same to say
			for mi := range w.Remotes[1].Modules {
				if mi < len(w.Remotes[0].Modules) && w.Remotes[0].Modules[mi].Diags != nil {
					w.Remotes[1].Modules[mi].Diags = w.Remotes[0].Modules[mi].Diags
				}
			}
			w.Script = append(w.Script, world.AddCall{Kind: "remote", Addr: w.Remotes[0].Addr}, world.AddCall{Kind: "remote", Addr: w.Remotes[1].Addr})
		}
		return DiagCase{World: w, Tracer: tracer}
	})
}

var _ = context.Background
var _ = os.Getenv

// ---------------------------------------------------------------------------
// (c') worlds that must fail by themselves: no allowed version, a relative
// dependency leaving its package, a finder reporting an error.

var subWorldErrors = ev.Register("worlderrors", func(w world.World) error {
	exp := world.Reference(w, nFinders)
	if exp.Error == "" {
		ev.Label("reference-predicts-success")
		return nil
	}
	if exp.Ambiguous {
		return nil
	}
	arena, cleanup := fsx.Scratch("c12e-")
	defer cleanup()
	h := world.NewHarness(w, nFinders)
	run, err := world.Start(h, filepath.Join(arena, "bundle"))
	if err != nil {
		return fmt.Errorf("harness: %v", err)
	}
	ev.NonTrivial(w, "world-that-must-fail")
	// with and without a tracer: reporting must not depend on it
	ctx := h.Context([]string{"full", "none", "partial:512"}[len(w.Script)%3])
	failedAt := -1
	for i, c := range w.Script {
		res := run.DoCall(ctx, c)
		if failedAt >= 0 {
			if res.Panicked == nil {
				return fmt.Errorf("Add call %d accepted after call %d had reported an error", i, failedAt)
			}
			continue
		}
		if res.Panicked != nil {
			return fmt.Errorf("Add call %d panicked: %v", i, res.Panicked)
		}
		if res.Diags.HasErrors() {
			failedAt = i
		}
	}
	if failedAt < 0 {
		run.Close()
		return fmt.Errorf("the build must fail (%s), but no Add call reported an error; Close gave bundle=%v err=%v", exp.Error, run.Bundle != nil, run.CloseErr)
	}
	run.Close()
	if run.ClosePanic == nil {
		return fmt.Errorf("Close returned (bundle=%v, err=%v) after a failed build (%s)", run.Bundle != nil, run.CloseErr, exp.Error)
	}
	if b, err := sourcebundle.OpenDir(run.Target); err == nil && b != nil {
		return fmt.Errorf("the target directory of a failed build (%s) opens as a bundle", exp.Error)
	}
	return nil
})

func TestPropWorldErrors(t *testing.T) {
	ev.Check(t, subWorldErrors, func(t *rapid.T) world.World {
		return world.Gen(t, world.Config{MaxRemotes: 3, MaxRegistry: 2, NFinders: nFinders, ErrorDeps: true, Diags: rapid.Bool().Draw(t, "diags")})
	})
}

// ---------------------------------------------------------------------------
// (a') WriteArchive into a writer that fails: the same contract as Pack - a
// writer fault at any byte offset makes WriteArchive return an error.

type ArchiveCase struct {
	World world.World `json:"world"`
	Only  int         `json:"only"` // -1 = every offset
}

var subArchiveWriter = ev.Register("archivewriter", func(c ArchiveCase) error {
	arena, cleanup := fsx.Scratch("c12w-")
	defer cleanup()
	run, err := world.Execute(c.World, nFinders, filepath.Join(arena, "bundle"), nil)
	if err != nil {
		return fmt.Errorf("harness: %v", err)
	}
	for _, call := range run.Calls {
		if call.Panicked != nil || call.Diags.HasErrors() {
			ev.Label("build-fails")
			return nil
		}
	}
	run.Close()
	if run.Bundle == nil {
		ev.Label("build-fails")
		return nil
	}
	clean := tarx.NewFaultWriter(-1)
	if err := run.Bundle.WriteArchive(clean); err != nil {
		return fmt.Errorf("WriteArchive into a sound writer failed: %v", err)
	}
	total := clean.Buf.Len()
	var offsets []int
	switch {
	case c.Only >= 0:
		offsets = []int{c.Only}
	case total <= 2048:
		for k := 0; k < total; k++ {
			offsets = append(offsets, k)
		}
	default:
		// every Write-call boundary +-1 and midpoint, the first and the last 300 bytes
		seen := map[int]bool{}
		add := func(k int) {
			if k >= 0 && k < total && !seen[k] {
				seen[k] = true
				offsets = append(offsets, k)
			}
		}
		pos := 0
		for _, n := range clean.Calls {
			for _, k := range []int{pos - 1, pos, pos + 1, pos + n/2} {
				add(k)
			}
			pos += n
		}
		for k := 0; k < 300; k++ {
			add(k)
			add(total - 1 - k)
		}
	}
	h := ev.Hash(c.World)
	for _, k := range offsets {
		w := tarx.NewFaultWriter(k)
		ev.Eval()
		err := run.Bundle.WriteArchive(w)
		if k > 0 {
			ev.NonTrivialKey(fmt.Sprintf("archive:%x@%d", h, k), "writer-fault-after-progress")
		}
		if w.Failed && err == nil {
			c.Only = k
			return fmt.Errorf("WriteArchive returned nil although the writer failed at byte %d of %d (the archive is incomplete)", k, total)
		}
	}
	return nil
})

func TestPropArchiveWriter(t *testing.T) {
	ev.Check(t, subArchiveWriter, func(t *rapid.T) ArchiveCase {
		return ArchiveCase{World: world.Gen(t, world.Config{MaxRemotes: 2, MaxRegistry: 1, NFinders: nFinders, RichTrees: rapid.Bool().Draw(t, "rich")}), Only: -1}
	})
}

// ---------------------------------------------------------------------------
// (c'') a failing Add call while another Add call on the same builder is
// waiting: the waiting call must not carry on with a builder that has just
// been given up - it may report or panic, but nothing may be written outside
// the target directory and no bundle may come out.

type PoisonCase struct {
	World   world.World `json:"world"`
	DelayUs int         `json:"delay_us"` // how long after the failing call the second one starts
	// Close is called from another goroutine this long after the first Add call started (0 = only afterwards)
	CloseUs int `json:"close_us,omitempty"`
}

var subPoison = ev.Register("concurrentpoison", func(c PoisonCase) error {
	arena, cleanup := fsx.Scratch("c12p-")
	defer cleanup()
	target := filepath.Join(arena, "bundle")
	os.Mkdir(filepath.Join(arena, "cwd"), 0755)
	os.Mkdir(filepath.Join(arena, "tmp"), 0777)
	oldWd, _ := os.Getwd()
	oldTmp := os.Getenv("TMPDIR")
	os.Chdir(filepath.Join(arena, "cwd"))
	os.Setenv("TMPDIR", filepath.Join(arena, "tmp"))
	defer func() {
		os.Chdir(oldWd)
		os.Setenv("TMPDIR", oldTmp)
	}()
	h := world.NewHarness(c.World, nFinders)
	h.Faults = []world.Fault{{Kind: "fetch", N: 1}} // the first fetch - the first call's - fails
	h.OnBoundary = func(string) { time.Sleep(300 * time.Microsecond) }
	run, err := world.Start(h, target)
	if err != nil {
		return fmt.Errorf("harness: %v", err)
	}
	before, err := fsx.Snapshot(arena, func(rel string) bool { return rel == "bundle" })
	if err != nil {
		return fmt.Errorf("harness: %v", err)
	}
	ctx := h.Context("full")
	results := make([]world.CallResult, len(c.World.Script))
	var wg sync.WaitGroup
	for i := range c.World.Script {
		wg.Add(1)
		go func(i int) {
			defer wg.Done()
			if i > 0 {
				time.Sleep(time.Duration(c.DelayUs*i) * time.Microsecond)
			}
			results[i] = run.DoCall(ctx, c.World.Script[i])
		}(i)
	}
	closedConcurrently := false
	if c.CloseUs > 0 {
		closedConcurrently = true
		wg.Add(1)
		go func() {
			defer wg.Done()
			time.Sleep(time.Duration(c.CloseUs) * time.Microsecond)
			run.Close()
		}()
	}
	wg.Wait()
	ev.NonTrivial(c, "failing-call-with-waiting-calls")
	after, err := fsx.Snapshot(arena, func(rel string) bool { return rel == "bundle" })
	if err != nil {
		return fmt.Errorf("harness: %v", err)
	}
	if d := fsx.Diff(before, after, "type size sum target"); len(d) > 0 {
		if len(d) > 5 {
			d = d[:5]
		}
		return fmt.Errorf("a failing Add call with other Add calls waiting on the same builder: the directory around the target changed: %s", strings.Join(d, "; "))
	}
	anyErr := false
	for _, r := range results {
		if r.Panicked == nil && r.Diags.HasErrors() {
			anyErr = true
		}
	}
	if !anyErr {
		ev.Label("fault-did-not-surface")
		return nil
	}
	if closedConcurrently {
		// Close ran while the calls were in flight: whatever the interleaving, a build in which a call
		// reported an error yields no bundle, and its target directory does not open as one
		if run.Bundle != nil {
			return fmt.Errorf("an Add call reported an error and Close, called while it was running, returned a bundle")
		}
		if b, err := sourcebundle.OpenDir(target); err == nil && b != nil {
			return fmt.Errorf("an Add call reported an error, Close was called while it was running, and the target directory opens as a bundle")
		}
		return nil
	}
	run.Close()
	if run.ClosePanic == nil {
		return fmt.Errorf("an Add call reported an error, but Close returned (bundle=%v err=%v): no bundle may come out of a failed build", run.Bundle != nil, run.CloseErr)
	}
	return nil
})

func TestPropConcurrentPoison(t *testing.T) {
	ev.Check(t, subPoison, func(t *rapid.T) PoisonCase {
		w := world.Gen(t, world.Config{MaxRemotes: 3, MaxRegistry: 0, NFinders: nFinders})
		// one Add call per package, the first one first
		w.Script = nil
		for _, p := range w.Remotes {
			w.Script = append(w.Script, world.AddCall{Kind: "remote", Addr: p.Addr})
		}
		if len(w.Script) == 1 {
			w.Script = append(w.Script, world.AddCall{Kind: "remote", Addr: w.Remotes[0].Addr + "//modules/a"})
		}
		return PoisonCase{World: w, DelayUs: rapid.SampledFrom([]int{0, 50, 200, 600}).Draw(t, "delay"), CloseUs: rapid.SampledFrom([]int{0, 0, 100, 400, 1500}).Draw(t, "closeafter")}
	})
}
