// C12 — failures are reported, never turned into silently partial results.
// (a) every write offset of Pack's output writer, (b) every truncation / read
// error offset of Unpack's input, policy rejections are IllegalSlugError.
// Bundle builds (c) and diagnostics (d) live in c12_bundle_test.go.
package c12

import (
	"errors"
	"fmt"
	"io"
	"os"
	"path/filepath"
	"strings"
	"testing"

	slug "github.com/hashicorp/go-slug"
	"pgregory.net/rapid"

	"verif/lib/ev"
	"verif/lib/fsx"
	"verif/lib/pk"
	"verif/lib/tarx"
	"verif/lib/tgen"
)

func TestMain(m *testing.M) { ev.Main(m, "C12") }

// ---------------------------------------------------------------------------
// (a) Pack with a failing writer

type PackCase struct {
	Tree fsx.Tree `json:"tree"`
	Opts pk.Opts  `json:"opts"`
	Only int      `json:"only"` // -1 = every offset; >=0 = that offset (replay of a shrunk failure)
}

var subPackWriter = ev.Register("packwriter", checkPackWriter)

func checkPackWriter(c PackCase) error {
	r, cleanup := fsx.Scratch("c12a-")
	defer cleanup()
	src := filepath.Join(r, "src")
	vars := map[string]string{"R": r}
	if err := fsx.Materialise(src, c.Tree, vars); err != nil {
		return fmt.Errorf("harness: materialise: %v", err)
	}
	p, err := c.Opts.Packer(vars)
	if err != nil {
		return fmt.Errorf("harness: %v", err)
	}
	clean := tarx.NewFaultWriter(-1)
	if _, err := p.Pack(src, clean); err != nil {
		ev.Label("clean-pack-fails")
		return nil
	}
	total := clean.Buf.Len()
	offsets := []int{}
	if c.Only >= 0 {
		offsets = append(offsets, c.Only)
	} else if total <= 4096 {
		for k := 0; k < total; k++ {
			offsets = append(offsets, k)
		}
	} else {
		pos := 0
		seen := map[int]bool{}
		for _, n := range clean.Calls {
			for _, k := range []int{pos - 1, pos, pos + 1, pos + n/2} {
				if k >= 0 && k < total && !seen[k] {
					seen[k] = true
					offsets = append(offsets, k)
				}
			}
			pos += n
		}
		if !seen[total-1] {
			offsets = append(offsets, total-1)
		}
	}
	h := ev.Hash(c)
	for _, k := range offsets {
		w := tarx.NewFaultWriter(k)
		ev.Eval()
		_, err := p.Pack(src, w)
		if k > 0 {
			ev.NonTrivialKey(fmt.Sprintf("pack:%x@%d", h, k), "writer-fault-after-progress")
		}
		if !w.Failed {
			continue // Pack never reached that offset (cannot happen for k < total)
		}
		if err == nil {
			c.Only = k
			return fmt.Errorf("Pack returned nil although the writer failed at byte %d of %d (output is incomplete)", k, total)
		}
		var ise *slug.IllegalSlugError
		if errors.As(err, &ise) {
			return fmt.Errorf("writer fault at byte %d reported as illegal-slug error: %v", k, err)
		}
	}
	return nil
}

func TestPropPackWriter(t *testing.T) {
	ev.Check(t, subPackWriter, func(t *rapid.T) PackCase {
		cfg := tgen.Config{MaxNodes: 8, Links: true, IgnoreNames: true}
		c := PackCase{Tree: tgen.Gen(t, cfg), Only: -1}
		c.Opts.Deref = rapid.Bool().Draw(t, "deref")
		c.Opts.Ignore = rapid.Bool().Draw(t, "ignore")
		return c
	})
}

// ---------------------------------------------------------------------------
// (a') Pack while the source directory loses an entry it has already listed

type VanishCase struct {
	Tree fsx.Tree `json:"tree"`
	Opts pk.Opts  `json:"opts"`
}

// vanishWriter removes victim when the first byte of the slug arrives.
type vanishWriter struct {
	victim string
	fired  bool
	n      int
}

func (w *vanishWriter) Write(p []byte) (int, error) {
	if !w.fired {
		w.fired = true
		os.RemoveAll(w.victim)
	}
	w.n += len(p)
	return len(p), nil
}

var subVanish = ev.Register("sourcevanish", func(c VanishCase) error {
	r, cleanup := fsx.Scratch("c12v-")
	defer cleanup()
	src := filepath.Join(r, "src")
	vars := map[string]string{"R": r}
	if err := fsx.Materialise(src, c.Tree, vars); err != nil {
		return fmt.Errorf("harness: materialise: %v", err)
	}
	p, err := c.Opts.Packer(vars)
	if err != nil {
		return fmt.Errorf("harness: %v", err)
	}
	meta, err := p.Pack(src, io.Discard)
	if err != nil || len(meta.Files) == 0 {
		ev.Label("clean-pack-fails-or-empty")
		return nil
	}
	names, _ := os.ReadDir(src)
	if len(names) < 2 {
		ev.Label("single-root-entry")
		return nil
	}
	victim := names[len(names)-1].Name() // ReadDir sorts by name, like the walk
	first := strings.TrimSuffix(meta.Files[0], "/")
	if first == victim || strings.HasPrefix(first, victim+"/") {
		ev.Label("victim-is-first-entry")
		return nil
	}
	// The walk has listed the root directory before anything is written; the
	// victim is gone by the time the walk gets to it.
	os.Chmod(src, 0755)
	w := &vanishWriter{victim: filepath.Join(src, victim)}
	ev.NonTrivial(c, "listed-entry-vanishes-during-pack")
	var perr error
	var panicked any
	func() {
		defer func() { panicked = recover() }()
		_, perr = p.Pack(src, w)
	}()
	if panicked != nil {
		return fmt.Errorf("Pack panicked: %v", panicked)
	}
	if _, serr := os.Lstat(w.victim); serr == nil {
		ev.Label("victim-not-removable")
		return nil
	}
	if perr == nil {
		return fmt.Errorf("Pack returned nil although %q, which the walk had listed, could no longer be read (it was removed while the first entry was written): the slug silently lacks it", victim)
	}
	return nil
})

func TestPropSourceVanish(t *testing.T) {
	ev.Check(t, subVanish, func(t *rapid.T) VanishCase {
		cfg := tgen.Config{MaxNodes: 8, Links: true, IgnoreNames: true}
		c := VanishCase{Tree: tgen.Gen(t, cfg)}
		c.Opts.Ignore = rapid.Bool().Draw(t, "ignore")
		return c
	})
}

// ---------------------------------------------------------------------------
// (b) Unpack with a truncated / failing reader

type UnpackCase struct {
	Entries []tarx.Entry `json:"entries"`
	Only    int          `json:"only"`
	Chunk   int          `json:"chunk"`           // reader hands out at most this many bytes per Read (0 = unlimited)
	Split   int          `json:"split,omitempty"` // the slug is a gzip stream of two members, cut in front of this entry
}

var subUnpackReader = ev.Register("unpackreader", checkUnpackReader)

// snapshotNoCtime keeps only what a complete extraction prescribes: times of
// links, of the destination itself and of implicitly created directories are
// creation times and differ from run to run.
func snapshotNoCtime(dir string, explicitDirs map[string]bool) (map[string]fsx.Entry, error) {
	s, err := fsx.Snapshot(dir, nil)
	for k, e := range s {
		e.Ctime, e.Ino = 0, 0
		if e.Type == "symlink" || (e.Type == "dir" && !explicitDirs[k]) {
			e.Mtime = 0
		}
		s[k] = e
	}
	return s, err
}

func checkUnpackReader(c UnpackCase) error {
	r, cleanup := fsx.Scratch("c12b-")
	defer cleanup()
	data, err := tarx.BuildSplit(c.Entries, nil, c.Split)
	if err != nil {
		ev.Label("archive-not-buildable")
		return nil
	}
	full := filepath.Join(r, "full")
	os.Mkdir(full, 0755)
	if err := slug.Unpack(tarx.NewFaultReader(data, len(data), true, c.Chunk), full); err != nil {
		ev.Label("complete-archive-rejected")
		return nil
	}
	explicit := map[string]bool{}
	for _, e := range c.Entries {
		if e.Type == "dir" {
			explicit[strings.Trim(e.Name, "/")] = true
		}
	}
	want, err := snapshotNoCtime(full, explicit)
	if err != nil {
		return fmt.Errorf("harness: %v", err)
	}
	// the complete archive, unpacked without complaint, is there in full: every entry of it has its path
	for _, e := range c.Entries {
		if _, ok := want[strings.Trim(e.Name, "/")]; !ok {
			return fmt.Errorf("Unpack of the complete archive returned nil, but the entry %q (%s) is not in the destination: success without the whole archive", e.Name, e.Type)
		}
	}
	h := ev.Hash(c)
	lo, hi := 0, len(data)
	if c.Only >= 0 {
		lo, hi = c.Only, c.Only+1
	}
	for k := lo; k < hi && k < len(data); k++ {
		for _, truncate := range []bool{true, false} {
			dst := filepath.Join(r, fmt.Sprintf("d%d%v", k, truncate))
			os.Mkdir(dst, 0755)
			ev.Eval()
			var uerr error
			var panicked any
			func() {
				defer func() { panicked = recover() }()
				uerr = slug.Unpack(tarx.NewFaultReader(data, k, truncate, c.Chunk), dst)
			}()
			if k > 20 {
				ev.NonTrivialKey(fmt.Sprintf("unpack:%x@%d/%v", h, k, truncate), "reader-fault-after-progress")
			}
			kind := "read error"
			if truncate {
				kind = "truncation"
			}
			if panicked != nil {
				c.Only = k
				return fmt.Errorf("Unpack panicked on %s at byte %d of %d: %v", kind, k, len(data), panicked)
			}
			if uerr == nil {
				got, err := snapshotNoCtime(dst, explicit)
				if err != nil {
					return fmt.Errorf("harness: %v", err)
				}
				if d := fsx.Diff(want, got, "mode size mtime target sum"); len(d) > 0 {
					if _, derr := tarx.Decode(data[:k]); truncate && derr == nil {
						// the bytes up to here are a well-formed slug of their own (the stream was cut exactly
						// between two gzip members, at a tar entry boundary): nothing tells it from a shorter archive
						ev.Label("truncation-leaves-a-well-formed-shorter-slug")
						fsx.RemoveAll(dst)
						continue
					}
					if len(d) > 4 {
						d = d[:4]
					}
					return fmt.Errorf("Unpack returned nil on %s at byte %d of %d but the tree is incomplete: %s", kind, k, len(data), strings.Join(d, "; "))
				}
				ev.Label("nil-with-complete-tree")
			} else {
				var ise *slug.IllegalSlugError
				if errors.As(uerr, &ise) {
					return fmt.Errorf("%s at byte %d reported as illegal-slug (policy) error: %v", kind, k, uerr)
				}
			}
			fsx.RemoveAll(dst)
		}
	}
	return nil
}

func genBenignEntries(t *rapid.T) []tarx.Entry {
	var out []tarx.Entry
	n := rapid.IntRange(1, 6).Draw(t, "n")
	for i := 0; i < n; i++ {
		name := fmt.Sprintf("n%d", i)
		if i > 0 && rapid.Bool().Draw(t, "nest") {
			name = "dir/" + name
		}
		switch rapid.IntRange(0, 3).Draw(t, "kind") {
		case 0:
			out = append(out, tarx.Entry{Name: name + "/", Type: "dir", Mode: 0755, Sec: 1500000000 + int64(i)})
		case 1:
			out = append(out, tarx.Entry{Name: name, Type: "symlink", Mode: 0777, Link: "n0", Sec: 1500000000})
		default:
			body := rapid.SampledFrom([]string{"", "x", "hello world", strings.Repeat("0123456789", 60), strings.Repeat("ab", 700)}).Draw(t, "body")
			out = append(out, tarx.Entry{Name: name, Type: "file", Mode: 0644, Body: body, Sec: 1500000000 + int64(i),
				Format: rapid.SampledFrom([]string{"", "pax", "gnu", "ustar"}).Draw(t, "fmt")})
		}
	}
	return out
}

func TestPropUnpackReader(t *testing.T) {
	ev.Check(t, subUnpackReader, func(t *rapid.T) UnpackCase {
		c := UnpackCase{Entries: genBenignEntries(t), Only: -1, Chunk: rapid.SampledFrom([]int{0, 0, 1, 7, 512}).Draw(t, "chunk")}
		if len(c.Entries) > 1 && rapid.IntRange(0, 3).Draw(t, "split?") == 0 {
			c.Split = rapid.IntRange(1, len(c.Entries)-1).Draw(t, "split")
		}
		return c
	})
}

// ---------------------------------------------------------------------------
// policy rejections are distinguishable

type PolicyCase struct {
	Before []tarx.Entry `json:"before"`
	Bad    tarx.Entry   `json:"bad"`
	// further offenders behind the first one: the rejection stays an illegal-slug error
	After []tarx.Entry `json:"after,omitempty"`
}

var subPolicy = ev.Register("policy", func(c PolicyCase) error {
	r, cleanup := fsx.Scratch("c12p-")
	defer cleanup()
	dst := filepath.Join(r, "dst")
	os.Mkdir(dst, 0755)
	os.Mkdir(filepath.Join(r, "dst-evil"), 0755)
	data, err := tarx.Build(append(append(append([]tarx.Entry{}, c.Before...), c.Bad), c.After...), map[string]string{"R": r, "DST": dst})
	if err != nil {
		ev.Label("archive-not-buildable")
		return nil
	}
	ev.NonTrivial(c, "policy-rejection")
	ev.LabelIf(len(c.After) > 0, "several-offenders")
	uerr, panicked := pk.Unpack(pk.Opts{}, nil, data, dst)
	if panicked != nil {
		return fmt.Errorf("Unpack panicked: %v", panicked)
	}
	if uerr == nil {
		return fmt.Errorf("entry %q (%s -> %q) violates the containment policy but Unpack returned nil", c.Bad.Name, c.Bad.Type, c.Bad.Link)
	}
	var ise *slug.IllegalSlugError
	if !errors.As(uerr, &ise) {
		return fmt.Errorf("policy rejection of %q (%s -> %q) is not an illegal-slug error: %T %v", c.Bad.Name, c.Bad.Type, c.Bad.Link, uerr, uerr)
	}
	return nil
})

func TestPropPolicy(t *testing.T) {
	ev.Check(t, subPolicy, func(t *rapid.T) PolicyCase {
		bad := tarx.Entry{Mode: 0644, Sec: 1500000000}
		var pre []tarx.Entry
		if k := rapid.IntRange(0, 9).Draw(t, "class"); k < 3 {
			// an entry kind a slug may not contain
			bad.Type = rapid.SampledFrom([]string{"fifo", "char", "block", "hardlink", "raw:Z", "raw:7"}).Draw(t, "kind")
			bad.Name = rapid.SampledFrom([]string{"p", "sub/p", "./p"}).Draw(t, "pname")
			if bad.Type == "hardlink" {
				bad.Link = "ok0"
			}
		} else if k < 5 {
			// an entry placed through a link of the archive
			pre = []tarx.Entry{{Name: "l", Type: "symlink", Mode: 0777, Link: rapid.SampledFrom([]string{".", "sub", "ok0"}).Draw(t, "via"), Sec: 1500000000}}
			bad.Type = rapid.SampledFrom([]string{"file", "dir", "symlink"}).Draw(t, "ttype")
			bad.Name = rapid.SampledFrom([]string{"l/x", "l/x/y", "zz/../l/x"}).Draw(t, "tname")
			if bad.Type == "symlink" {
				bad.Link = "x"
			} else {
				bad.Body = "IN:bad"
			}
		} else if k < 6 {
			// a link that leaves the destination by way of another link
			pre = []tarx.Entry{{Name: "a", Type: "symlink", Mode: 0777, Link: ".", Sec: 1500000000}}
			bad.Type = "symlink"
			bad.Name = "b"
			bad.Link = rapid.SampledFrom([]string{"a/..", "a/../..", "a/../dst-evil"}).Draw(t, "viatarget")
		} else if rapid.Bool().Draw(t, "link") {
			bad.Type = "symlink"
			bad.Name = rapid.SampledFrom([]string{"l", "sub/l", "./l"}).Draw(t, "lname")
			bad.Link = rapid.SampledFrom([]string{"../..", "../../x", "/etc/passwd", "{R}/dst-evil", "{DST}-evil/x", "../../dst-evil"}).Draw(t, "ltarget")
		} else {
			bad.Type = rapid.SampledFrom([]string{"file", "dir"}).Draw(t, "type")
			bad.Name = rapid.SampledFrom([]string{"../x", "../dst-evil/x", "a/../../x", "/../x", "sub/../../dst-evil/y", ".."}).Draw(t, "name")
			bad.Body = "IN:bad"
		}
		bad.Raw = rapid.Bool().Draw(t, "raw")
		var before []tarx.Entry
		for i := 0; i < rapid.IntRange(0, 3).Draw(t, "nbefore"); i++ {
			before = append(before, tarx.Entry{Name: fmt.Sprintf("ok%d", i), Type: "file", Mode: 0644, Body: "fine", Sec: 1500000000})
		}
		if strings.HasPrefix(bad.Type, "raw:") {
			bad.Raw = true
		}
		pc := PolicyCase{Before: append(before, pre...), Bad: bad}
		// more entries of the kind that is only found out once everything is in place
		for i := 0; i < rapid.IntRange(0, 2).Draw(t, "nafter"); i++ {
			if len(pre) == 0 || pre[0].Name != "a" {
				pc.Before = append(pc.Before, tarx.Entry{Name: "a", Type: "symlink", Mode: 0777, Link: ".", Sec: 1500000000})
				pre = []tarx.Entry{{Name: "a"}}
			}
			pc.After = append(pc.After, tarx.Entry{Name: fmt.Sprintf("more%d", i), Type: "symlink", Mode: 0777, Sec: 1500000000,
				Link: rapid.SampledFrom([]string{"a/..", "a/../x", "a/../..", "a/../dst-evil"}).Draw(t, "moretarget")})
		}
		return pc
	})
}

func TestReplay(t *testing.T) { ev.Replay(t) }
func TestKnown(t *testing.T)  { ev.KnownFindings(t) }
