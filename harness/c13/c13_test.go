// C13 — the bundle is a function of its inputs, not of order or scheduling.
package c13

import (
	"path"
	"context"
	"fmt"
	"os"
	"path/filepath"
	"runtime"
	"sort"
	"strings"
	"sync"
	"testing"

	"github.com/hashicorp/go-slug/sourceaddrs"
	"github.com/hashicorp/go-slug/sourcebundle"
	"pgregory.net/rapid"

	"verif/lib/ev"
	"verif/lib/fsx"
	"verif/lib/refignore"
	"verif/lib/world"
)

func TestMain(m *testing.M) { ev.Main(m, "C13") }

const nFinders = 2

// Fingerprint: everything observable about a finished bundle, relative to its root.
type Fingerprint struct {
	Manifest string
	Checksum string
	Dirs     []string
	Files    map[string]string // relative path -> content
	Lookups  map[string]string // address -> path relative to root ("!err" for errors)
	Reverse  map[string]string // relative path -> source address
}

func fingerprint(w world.World, run *world.Run) (*Fingerprint, error) {
	b := run.Bundle
	root := run.Target
	fp := &Fingerprint{Files: map[string]string{}, Lookups: map[string]string{}, Reverse: map[string]string{}}
	mb, err := os.ReadFile(filepath.Join(root, "terraform-sources.json"))
	if err != nil {
		return nil, err
	}
	fp.Manifest = string(mb)
	fp.Checksum, _ = b.ChecksumV1()
	ents, _ := os.ReadDir(root)
	for _, e := range ents {
		fp.Dirs = append(fp.Dirs, e.Name())
	}
	sort.Strings(fp.Dirs)
	snap, err := fsx.Snapshot(root, nil)
	if err != nil {
		return nil, err
	}
	for k, e := range snap {
		if e.Type == "file" {
			c, _ := os.ReadFile(filepath.Join(root, k))
			fp.Files[k] = string(c)
		} else if e.Type == "symlink" {
			fp.Files[k] = "-> " + e.Target
		}
	}
	rel := func(p string, err error) string {
		if err != nil {
			return "!err"
		}
		r, rerr := filepath.Rel(root, p)
		if rerr != nil {
			return "!rel " + p
		}
		return r
	}
	for _, p := range w.Remotes {
		pa, err := sourceaddrs.ParseRemotePackage(p.Addr)
		if err != nil {
			continue
		}
		for _, sub := range []string{"", "modules/a", "nowhere"} {
			src := pa.SourceAddr(sub)
			fp.Lookups[src.String()] = rel(b.LocalPathForRemoteSource(src))
		}
	}
	for _, pkg := range b.RegistryPackages() {
		// the version list of one bundle object is the same list every time it is asked for
		first := fmt.Sprint(b.RegistryPackageVersions(pkg))
		for i := 0; i < 12; i++ {
			if again := fmt.Sprint(b.RegistryPackageVersions(pkg)); again != first {
				return nil, fmt.Errorf("RegistryPackageVersions(%s) answered %s and then %s for the same bundle object", pkg, first, again)
			}
		}
		fp.Lookups["versions:"+pkg.String()] = first
		for _, v := range b.RegistryPackageVersions(pkg) {
			src, _ := b.RegistryPackageSourceAddr(pkg, v)
			dep := b.RegistryPackageVersionDeprecation(pkg, v)
			fp.Lookups["reg:"+pkg.String()+"@"+v.String()] = fmt.Sprintf("%s dep=%v", src, dep != nil)
		}
	}
	// reverse lookups, several times each (they must be stable)
	for _, d := range fp.Dirs {
		if d == "terraform-sources.json" {
			continue
		}
		for _, tail := range []string{"", "main.tf", "modules/a/main.tf"} {
			p := filepath.Join(root, d, tail)
			first := ""
			for i := 0; i < 6; i++ {
				src, err := b.SourceForLocalPath(p)
				s := "!err"
				if err == nil {
					s = src.String()
				}
				if i == 0 {
					first = s
				} else if s != first {
					return nil, fmt.Errorf("SourceForLocalPath(%q) answered %q and then %q for the same bundle object", filepath.Join(d, tail), first, s)
				}
			}
			fp.Reverse[filepath.Join(d, tail)] = first
		}
	}
	return fp, nil
}

func diffFP(a, b *Fingerprint) string {
	if a.Manifest != b.Manifest {
		return fmt.Sprintf("manifest bytes differ:\n%s\n--- vs ---\n%s", clip(a.Manifest), clip(b.Manifest))
	}
	if a.Checksum != b.Checksum {
		return "ChecksumV1 differs"
	}
	if strings.Join(a.Dirs, ",") != strings.Join(b.Dirs, ",") {
		return fmt.Sprintf("directory names differ: %v vs %v", a.Dirs, b.Dirs)
	}
	for k, v := range a.Files {
		if b.Files[k] != v {
			return fmt.Sprintf("file %s differs or is missing", k)
		}
	}
	if len(a.Files) != len(b.Files) {
		return "file sets differ"
	}
	for k, v := range a.Lookups {
		if b.Lookups[k] != v {
			return fmt.Sprintf("lookup of %s: %q vs %q", k, v, b.Lookups[k])
		}
	}
	for k, v := range a.Reverse {
		if b.Reverse[k] != v {
			return fmt.Sprintf("SourceForLocalPath(%s): %q vs %q", k, v, b.Reverse[k])
		}
	}
	return ""
}

func clip(s string) string {
	if len(s) > 1200 {
		return s[:1200] + "..."
	}
	return s
}

// build runs the script in the given order (sequentially) and fingerprints the result.
func build(w world.World, order []int, permuteDeps int, arena string, tag string) (*Fingerprint, string, error) {
	script := make([]world.AddCall, len(order))
	for i, j := range order {
		script[i] = w.Script[j]
	}
	w2 := w
	w2.Script = script
	h := world.NewHarness(w2, nFinders)
	switch permuteDeps {
	case 1:
		h.PermuteDeps = func(d []world.Dep) []world.Dep {
			for i, j := 0, len(d)-1; i < j; i, j = i+1, j-1 {
				d[i], d[j] = d[j], d[i]
			}
			return d
		}
	case 2:
		h.PermuteDeps = func(d []world.Dep) []world.Dep {
			if len(d) > 1 {
				d = append(d[1:], d[0])
			}
			return d
		}
	}
	run, err := world.Start(h, filepath.Join(arena, tag))
	if err != nil {
		return nil, "", err
	}
	ctx := context.Background()
	for _, c := range script {
		res := run.DoCall(ctx, c)
		if res.Panicked != nil {
			return nil, fmt.Sprintf("panic: %v", res.Panicked), nil
		}
		if res.Diags.HasErrors() {
			return nil, "error-diagnostics", nil
		}
	}
	run.Close()
	if run.ClosePanic != nil || run.CloseErr != nil {
		return nil, fmt.Sprintf("close: %v %v", run.CloseErr, run.ClosePanic), nil
	}
	fp, err := fingerprint(w, run)
	if err != nil {
		return nil, "", err
	}
	return fp, "", nil
}

func permutations(n int) [][]int {
	var out [][]int
	var rec func(cur []int, used []bool)
	rec = func(cur []int, used []bool) {
		if len(cur) == n {
			out = append(out, append([]int{}, cur...))
			return
		}
		for i := 0; i < n; i++ {
			if !used[i] {
				used[i] = true
				rec(append(cur, i), used)
				used[i] = false
			}
		}
	}
	rec(nil, make([]bool, n))
	return out
}

var subOrder = ev.Register("order", checkOrder)

func checkOrder(w world.World) error {
	exp := world.Reference(w, nFinders)
	if exp.Error != "" || exp.Ambiguous {
		ev.Label("not-judged")
		return nil
	}
	arena, cleanup := fsx.Scratch("c13-")
	defer cleanup()
	id := make([]int, len(w.Script))
	for i := range id {
		id[i] = i
	}
	base, berr, err := build(w, id, 0, arena, "base")
	if err != nil {
		return fmt.Errorf("build in script order: %v", err)
	}
	if berr != "" {
		return fmt.Errorf("fault-free build failed: %s", berr)
	}
	if len(w.Script) >= 2 {
		ev.NonTrivial(w, "several-adds")
	}
	perms := permutations(len(w.Script))
	for pi, perm := range perms {
		for pd := 0; pd < 3; pd++ {
			if pi == 0 && pd == 0 {
				continue
			}
			if pd > 0 && pi%3 != 0 {
				continue
			}
			ev.Eval()
			fp, ferr, err := build(w, perm, pd, arena, fmt.Sprintf("p%d-%d", pi, pd))
			if err != nil {
				return fmt.Errorf("build in order %v: %v", perm, err)
			}
			if ferr != "" {
				return fmt.Errorf("Add order %v (dependency report order %d) failed although order %v succeeded: %s", perm, pd, id, ferr)
			}
			if d := diffFP(base, fp); d != "" {
				return fmt.Errorf("Add order %v (dependency report order %d) gives a different bundle than order %v: %s", perm, pd, id, d)
			}
			fsx.RemoveAll(filepath.Join(arena, fmt.Sprintf("p%d-%d", pi, pd)))
		}
	}
	// coalescing: equal trees share a directory, different trees never do
	trees := map[string]string{}
	dirs := map[string]string{}
	for _, p := range w.Remotes {
		pa, err := sourceaddrs.ParseRemotePackage(p.Addr)
		if err != nil {
			continue
		}
		d := base.Lookups[pa.SourceAddr("").String()]
		if d == "!err" {
			continue
		}
		var sig []string
		rules := refignore.Rules("")
		for _, n := range p.Tree().Sorted() {
			// what the bundle keeps: files not removed by the (built-in) ignore rules
			if n.Kind == "file" && !refignore.Excluded(rules, n.Path, false) {
				sig = append(sig, n.Path+"="+n.Content)
			}
			if n.Kind == "symlink" && !refignore.Excluded(rules, n.Path, false) {
				// a link counts with what is read through it
				tgt := path.Clean(path.Join(path.Dir(n.Path), n.Target))
				for _, m := range p.Tree() {
					if m.Kind == "file" && m.Path == tgt {
						sig = append(sig, n.Path+"="+m.Content)
					}
				}
			}
		}
		trees[p.Addr] = strings.Join(sig, "\n")
		dirs[p.Addr] = d
	}
	for a, ta := range trees {
		for b, tb := range trees {
			if a >= b {
				continue
			}
			if ta == tb && dirs[a] != dirs[b] {
				return fmt.Errorf("packages %s and %s have the same file paths and contents but live in different directories (%s, %s)", a, b, dirs[a], dirs[b])
			}
			if ta != tb && dirs[a] == dirs[b] {
				return fmt.Errorf("packages %s and %s differ in content but share the directory %s", a, b, dirs[a])
			}
			if ta == tb {
				ev.NonTrivial(w, "coalescing-pair")
			}
		}
	}
	return nil
}

// ---------------------------------------------------------------------------
// concurrent Add calls on one builder (run from a -race binary)

type ConcCase struct {
	World world.World `json:"world"`
	Yield []int       `json:"yield"` // yield pattern consumed by the harness callbacks
}

var subConcurrent = ev.Register("concurrent", checkConcurrent)
var subRace = ev.Register("race", func(c map[string]any) error { return nil })

func checkConcurrent(c ConcCase) error {
	w := c.World
	exp := world.Reference(w, nFinders)
	if exp.Error != "" || exp.Ambiguous {
		ev.Label("not-judged")
		return nil
	}
	arena, cleanup := fsx.Scratch("c13c-")
	defer cleanup()
	ev.NonTrivial(c, "concurrent-adds")
	// concurrent build first
	h := world.NewHarness(w, nFinders)
	var ymu sync.Mutex
	yi := 0
	h.Yield = func() {
		ymu.Lock()
		n := 0
		if len(c.Yield) > 0 {
			n = c.Yield[yi%len(c.Yield)]
			yi++
		}
		ymu.Unlock()
		for i := 0; i < n; i++ {
			runtime.Gosched()
		}
	}
	run, err := world.Start(h, filepath.Join(arena, "conc"))
	if err != nil {
		return fmt.Errorf("harness: %v", err)
	}
	results := make([]world.CallResult, len(w.Script))
	var wg sync.WaitGroup
	start := make(chan struct{})
	for i := range w.Script {
		wg.Add(1)
		go func(i int) {
			defer wg.Done()
			<-start
			results[i] = run.DoCall(context.Background(), w.Script[i])
		}(i)
	}
	close(start)
	wg.Wait()
	for i, r := range results {
		if r.Panicked != nil {
			return fmt.Errorf("concurrent Add %d (%+v) panicked: %v", i, w.Script[i], r.Panicked)
		}
		if r.Diags.HasErrors() {
			return fmt.Errorf("concurrent Add %d (%+v) reported errors in a fault-free world", i, w.Script[i])
		}
	}
	run.Close()
	if run.ClosePanic != nil || run.CloseErr != nil {
		return fmt.Errorf("Close after concurrent Adds failed: %v %v", run.CloseErr, run.ClosePanic)
	}
	got, err := fingerprint(w, run)
	if err != nil {
		return fmt.Errorf("after concurrent Adds: %v", err)
	}
	id := make([]int, len(w.Script))
	for i := range id {
		id[i] = i
	}
	base, berr, err := build(w, id, 0, arena, "seq")
	if err != nil || berr != "" {
		return fmt.Errorf("sequential build failed: %v %s", err, berr)
	}
	if d := diffFP(base, got); d != "" {
		return fmt.Errorf("concurrent Add calls give a different bundle than sequential ones: %s", d)
	}
	// each piece of work still done once
	fetches := map[string]int{}
	for _, e := range h.Log {
		if e.Kind == "fetch" {
			fetches[e.Key]++
		}
	}
	for k, n := range fetches {
		if n != 1 {
			return fmt.Errorf("package %s fetched %d times under concurrent Adds", k, n)
		}
	}
	return nil
}

func genWorld(t *rapid.T) world.World {
	w := world.Gen(t, world.Config{MaxRemotes: 4, MaxRegistry: 2, NFinders: nFinders, Clones: true, Meta: true, Diags: true})
	if len(w.Registry) > 0 && len(w.Registry[0].Versions) > 0 && rapid.IntRange(0, 3).Draw(t, "twins?") == 0 {
		// three versions of equal precedence (build metadata only), each pinned by its own Add call
		real := w.Registry[0].Versions[0].Real
		for _, m := range []string{"+b", "+a", "+c"} {
			w.Registry[0].Versions = append(w.Registry[0].Versions, world.RegVersion{V: "7.0.0" + m, Real: real})
			w.Script = append(w.Script, world.AddCall{Kind: "final", Addr: w.Registry[0].Addr, Version: "7.0.0" + m})
		}
		if rapid.Bool().Draw(t, "unpinned?") {
			// ... or none of them is pinned, they lead to different packages, and requests leave the choice
			// among them to the builder: it has to be the same choice in every build
			n := len(w.Registry[0].Versions)
			for i := 0; i < 3; i++ {
				w.Registry[0].Versions[n-3+i].Real = w.Remotes[i%len(w.Remotes)].Addr
			}
			w.Script = []world.AddCall{{Kind: "registry", Addr: w.Registry[0].Addr}, {Kind: "registry", Addr: w.Registry[0].Addr + "//modules/a"},
				{Kind: "remote", Addr: w.Remotes[0].Addr}}
		}
		if len(w.Script) > 4 {
			w.Script = w.Script[len(w.Script)-4:]
		}
	}
	return w
}

func TestPropOrder(t *testing.T) { ev.Check(t, subOrder, genWorld) }

func TestPropConcurrent(t *testing.T) {
	ev.Check(t, subConcurrent, func(t *rapid.T) ConcCase {
		w := genWorld(t)
		for len(w.Script) < 2 {
			w.Script = append(w.Script, w.Script[0])
		}
		return ConcCase{World: w, Yield: rapid.SliceOfN(rapid.IntRange(0, 3), 0, 8).Draw(t, "yield")}
	})
}

func TestReplay(t *testing.T) { ev.Replay(t) }
func TestKnown(t *testing.T)  { ev.KnownFindings(t) }

var _ = sourcebundle.OpenDir
