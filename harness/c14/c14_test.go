// C14 — the builder does each piece of work once and always terminates.
// Oracle: call logs of the harness fetcher / registry client / finders and of
// a recording BuildTracer, against the reference closure. DESIGN.md §5 C14.
package c14

import (
	"fmt"
	"sort"
	"strings"
	"testing"

	"github.com/apparentlymart/go-versions/versions"
	"github.com/hashicorp/go-slug/sourceaddrs"
	"pgregory.net/rapid"

	"verif/lib/ev"
	"verif/lib/fsx"
	"verif/lib/world"
)

func TestMain(m *testing.M) { ev.Main(m, "C14") }

const nFinders = 2

// Case: a world plus how the build is traced.
type Case struct {
	World  world.World `json:"world"`
	Tracer string      `json:"tracer"` // full | none | partial:<bits>
}

var subOnce = ev.Register("once", func(c Case) error { return checkOnce(c.World, c.Tracer) })

func contentOf(w world.World, pkg string) string {
	for _, p := range w.Remotes {
		pa, err := sourceaddrs.ParseRemotePackage(p.Addr)
		if err == nil && pa.String() == pkg {
			return p.Content
		}
	}
	return "?"
}

func shape(w world.World, exp world.Expect) string {
	dup := map[string]int{}
	for _, c := range w.Script {
		dup[fmt.Sprintf("%s|%s|%s|%s|%d", c.Kind, c.Addr, c.Allowed, c.Version, c.Finder)]++
	}
	for _, n := range dup {
		if n > 1 {
			return "duplicate-add"
		}
	}
	// a cycle or diamond: some artifact reachable along two different edges
	edges := 0
	for _, p := range w.Remotes {
		for _, m := range p.Modules {
			for _, ds := range m.Deps {
				edges += len(ds)
			}
		}
	}
	if edges > len(exp.Analysed) {
		return "cycle-or-diamond"
	}
	if len(exp.Analysed) > 1 {
		return "multi-artifact"
	}
	return ""
}

func checkOnce(w world.World, tracerMode string) error {
	exp := world.Reference(w, nFinders)
	if exp.Error != "" {
		ev.Label("reference-predicts-error")
		return nil
	}
	if exp.Ambiguous {
		ev.Label("ambiguous-twins")
		return nil
	}
	arena, cleanup := fsx.Scratch("c14-")
	defer cleanup()
	h := world.NewHarness(w, nFinders)
	expectedEvents := 4*len(exp.Analysed) + 8*len(exp.Packages) + 8*len(exp.Versions) + 8*len(exp.Selections) + 8*len(w.Script)
	h.Budget = 100 + 10*expectedEvents
	run, err := world.Start(h, world.TargetDir(arena))
	if err != nil {
		return fmt.Errorf("harness: %v", err)
	}
	ctx := h.Context(tracerMode)
	for _, c := range w.Script {
		res := run.DoCall(ctx, c)
		if h.Overbudget {
			return fmt.Errorf("the build does not terminate: more than %d callbacks for a closure of %d artifacts (last events: %v)", h.Budget, len(exp.Analysed), tailEvents(h.Log, 6))
		}
		if res.Panicked != nil {
			return fmt.Errorf("Add call %+v panicked: %v", c, res.Panicked)
		}
		if res.Diags.HasErrors() {
			return fmt.Errorf("fault-free build reported errors for %+v: %v", c, diagStrings(res))
		}
	}
	if s := shape(w, exp); s != "" {
		ev.NonTrivial(Case{w, tracerMode}, s)
	}
	// ---- counts
	fetches := map[string]int{}
	versionsReq := map[string]int{}
	sourceReq := map[string]int{}
	analyses := map[string]int{}
	for _, e := range h.Log {
		switch e.Kind {
		case "fetch":
			fetches[e.Key]++
		case "versions":
			versionsReq[e.Key]++
		case "source":
			sourceReq[e.Key]++
		case "analyse":
			analyses[e.Key]++
		}
	}
	for pkg := range exp.Packages {
		if fetches[pkg] != 1 {
			return fmt.Errorf("package %s was fetched %d times, expected exactly once (fetch log %v)", pkg, fetches[pkg], fetches)
		}
	}
	for pkg, n := range fetches {
		if !exp.Packages[pkg] {
			return fmt.Errorf("package %s was fetched (%d times) although nothing in the closure refers to it", pkg, n)
		}
	}
	for pkg := range exp.Versions {
		if versionsReq[pkg] != 1 {
			return fmt.Errorf("version list of %s requested %d times, expected once", pkg, versionsReq[pkg])
		}
	}
	for pkg, n := range versionsReq {
		if !exp.Versions[pkg] {
			return fmt.Errorf("version list of %s requested %d times although it is not in the closure", pkg, n)
		}
	}
	wantSource := map[string]bool{}
	for _, s := range exp.Selections {
		v, _ := versions.ParseVersion(s.Version)
		wantSource[s.Pkg+"@"+v.Comparable().String()] = true
	}
	gotSource := map[string]int{}
	for k, n := range sourceReq {
		pkg, vs, _ := strings.Cut(k, "@")
		v, _ := versions.ParseVersion(vs)
		gotSource[pkg+"@"+v.Comparable().String()] += n
	}
	for k := range wantSource {
		if gotSource[k] != 1 {
			return fmt.Errorf("source address of %s requested %d times, expected once (log %v)", k, gotSource[k], sourceReq)
		}
	}
	for k, n := range gotSource {
		if !wantSource[k] {
			return fmt.Errorf("source address of %s requested %d times although that version is not selected by anything", k, n)
		}
	}
	wantAnalyses := map[string]int{}
	for a := range exp.Analysed {
		src, _ := sourceaddrs.ParseRemoteSource(a.Source)
		wantAnalyses[fmt.Sprintf("%s//%s#f%d", contentOf(w, src.Package().String()), src.SubPath(), a.Finder)]++
	}
	for k, n := range wantAnalyses {
		if analyses[k] != n {
			return fmt.Errorf("(source, finder) %s analysed %d times, expected %d (analysis log %v)", k, analyses[k], n, analyses)
		}
	}
	for k, n := range analyses {
		if wantAnalyses[k] == 0 {
			return fmt.Errorf("(source, finder) %s analysed %d times but is not in the closure", k, n)
		}
	}
	// ---- trace bracketing (needs every callback)
	if tracerMode == "" || tracerMode == "full" {
		if err := bracketing(h.Log); err != nil {
			return err
		}
	}
	return nil
}

// bracketing: per kind, start -> exactly one success|failure with the same key;
// the real call sits between them; 'already' only after a success for that key.
func bracketing(log []world.Event) error {
	type st struct {
		open    string
		called  bool
		success map[string]bool
	}
	kinds := map[string]*st{"versions": {success: map[string]bool{}}, "source": {success: map[string]bool{}}, "download": {success: map[string]bool{}}}
	callKind := map[string]string{"versions": "versions", "source": "source", "fetch": "download"}
	for i, e := range log {
		if k, ok := callKind[e.Kind]; ok {
			s := kinds[k]
			if s.open == "" {
				return fmt.Errorf("event %d: %s call for %s outside a start/success bracket of the tracer", i, e.Kind, e.Key)
			}
			if s.open != e.Key && !(k == "source" && sameVersionKey(s.open, e.Key)) {
				return fmt.Errorf("event %d: %s call for %s inside the bracket opened for %s", i, e.Kind, e.Key, s.open)
			}
			if s.called {
				return fmt.Errorf("event %d: second %s call for %s inside one bracket", i, e.Kind, e.Key)
			}
			s.called = true
			continue
		}
		if !strings.HasPrefix(e.Kind, "trace:") {
			continue
		}
		parts := strings.SplitN(strings.TrimPrefix(e.Kind, "trace:"), "-", 2)
		if len(parts) != 2 {
			continue
		}
		s := kinds[parts[0]]
		if s == nil {
			continue
		}
		switch parts[1] {
		case "start":
			if s.open != "" {
				return fmt.Errorf("event %d: %s start for %s while the bracket for %s is still open", i, parts[0], e.Key, s.open)
			}
			s.open, s.called = e.Key, false
		case "success", "failure":
			if s.open != e.Key {
				return fmt.Errorf("event %d: %s %s for %s without a matching start (open: %q)", i, parts[0], parts[1], e.Key, s.open)
			}
			if !s.called {
				return fmt.Errorf("event %d: %s %s for %s although the real call never happened", i, parts[0], parts[1], e.Key)
			}
			if parts[1] == "success" {
				s.success[e.Key] = true
			}
			s.open = ""
		case "already":
			if !s.success[e.Key] {
				return fmt.Errorf("event %d: %s 'already' event for %s, but no success was reported for it earlier", i, parts[0], e.Key)
			}
		}
	}
	for k, s := range kinds {
		if s.open != "" {
			return fmt.Errorf("%s start for %s was never followed by success or failure", k, s.open)
		}
	}
	return nil
}

func sameVersionKey(a, b string) bool { return a == b }

func diagStrings(r world.CallResult) []string {
	var out []string
	for _, d := range r.Diags {
		out = append(out, world.DiagString(d))
	}
	return out
}

func tailEvents(log []world.Event, n int) []string {
	var out []string
	for i := len(log) - n; i < len(log); i++ {
		if i >= 0 {
			out = append(out, log[i].Kind+" "+log[i].Key)
		}
	}
	return out
}

func TestPropOnce(t *testing.T) {
	ev.Check(t, subOnce, func(t *rapid.T) Case {
		w := world.Gen(t, world.Config{MaxRemotes: 4, MaxRegistry: 3, NFinders: nFinders, Clones: true, Diags: true})
		// repeats in the script
		if len(w.Script) > 0 && rapid.IntRange(0, 2).Draw(t, "repeat?") == 0 {
			w.Script = append(w.Script, w.Script[rapid.IntRange(0, len(w.Script)-1).Draw(t, "which")])
		}
		mode := "full"
		switch rapid.IntRange(0, 5).Draw(t, "tracer") {
		case 0:
			mode = "none"
		case 1, 2:
			mode = fmt.Sprintf("partial:%d", rapid.IntRange(1, 2047).Draw(t, "bits"))
		}
		return Case{World: w, Tracer: mode}
	})
}

// ---------------------------------------------------------------------------
// exhaustive small worlds: n module locations, every edge in {none, remote, registry}

var locSubs = []string{"", "modules/a", "modules/b"}

func smallWorld(n int, edges []int, separate bool, script []int) world.World {
	var w world.World
	addrOf := func(i int) string {
		if separate {
			return fmt.Sprintf("git::https://example.com/e%d.git", i)
		}
		if locSubs[i] == "" {
			return "git::https://example.com/e.git"
		}
		return "git::https://example.com/e.git//" + locSubs[i]
	}
	regOf := func(i int) string { return fmt.Sprintf("example.com/ns/loc%d/aws", i) }
	mods := make([]world.Module, n)
	for i := 0; i < n; i++ {
		sub := locSubs[i]
		if separate {
			sub = ""
		}
		mods[i] = world.Module{Sub: sub, Deps: map[string][]world.Dep{"0": nil}}
		for j := 0; j < n; j++ {
			switch edges[i*n+j] {
			case 1:
				mods[i].Deps["0"] = append(mods[i].Deps["0"], world.Dep{Kind: "remote", Addr: addrOf(j)})
			case 2:
				mods[i].Deps["0"] = append(mods[i].Deps["0"], world.Dep{Kind: "registry", Addr: regOf(j)})
			}
		}
	}
	if separate {
		for i := 0; i < n; i++ {
			w.Remotes = append(w.Remotes, world.RemotePkg{Addr: fmt.Sprintf("git::https://example.com/e%d.git", i), Content: fmt.Sprintf("e%d", i), Modules: []world.Module{mods[i]}})
		}
	} else {
		w.Remotes = []world.RemotePkg{{Addr: "git::https://example.com/e.git", Content: "e", Modules: mods}}
	}
	usesReg := map[int]bool{}
	for i := 0; i < n; i++ {
		for j := 0; j < n; j++ {
			if edges[i*n+j] == 2 {
				usesReg[j] = true
			}
		}
	}
	for j := 0; j < n; j++ {
		if usesReg[j] {
			w.Registry = append(w.Registry, world.RegistryPkg{Addr: regOf(j), Versions: []world.RegVersion{{V: "1.0.0", Real: addrOf(j)}, {V: "0.9.0", Real: addrOf((j + 1) % n)}}})
		}
	}
	for _, s := range script {
		w.Script = append(w.Script, world.AddCall{Kind: "remote", Addr: addrOf(s % n)})
	}
	return w
}

func TestExhaustiveGraphs(t *testing.T) {
	k, nsh := ev.Shard()
	n := ev.EnvInt("VERIF_C14_LOCS", 2)
	total := 1
	for i := 0; i < n*n; i++ {
		total *= 3
	}
	scripts := [][]int{{0}, {0, 1, 0}}
	idx := 0
	for code := 0; code < total; code++ {
		edges := make([]int, n*n)
		c := code
		for i := range edges {
			edges[i] = c % 3
			c /= 3
		}
		for _, separate := range []bool{false, true} {
			for _, sc := range scripts {
				idx++
				if code%nsh != k {
					continue
				}
				mode := []string{"full", "none", "partial:2", "partial:18"}[idx%4]
				subOnce.Do(Case{World: smallWorld(n, edges, separate, sc), Tracer: mode})
			}
		}
	}
	ev.Exhaustive(fmt.Sprintf("all %d edge assignments in {none, remote, via registry} over %d module locations x {one package, separate packages} x 2 scripts", total, n), true)
}

func TestReplay(t *testing.T) { ev.Replay(t) }
func TestKnown(t *testing.T)  { ev.KnownFindings(t) }

var _ = sort.Strings
