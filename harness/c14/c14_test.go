// C14 — the builder does each piece of work once and always terminates.
// Oracle: call logs of the harness fetcher / registry client / finders and of
// a recording BuildTracer, against the reference closure. DESIGN.md §5 C14.
package c14

import (
	"context"
	"fmt"
	"sort"
	"strings"
	"sync"
	"testing"
	"time"

	"github.com/apparentlymart/go-versions/versions"
	"github.com/hashicorp/go-slug/sourceaddrs"
	"pgregory.net/rapid"

	"verif/lib/ev"
	"verif/lib/fsx"
	"verif/lib/world"
)

func TestMain(m *testing.M) { ev.Main(m, "C14") }

const nFinders = 2

// Case: a world plus how the build is traced.
type Case struct {
	World  world.World `json:"world"`
	Tracer string      `json:"tracer"` // full | none | partial:<bits>
	// the Add calls are made from goroutines of their own, a few hundred microseconds apart
	Concurrent bool `json:"concurrent,omitempty"`
}

var subOnce = ev.Register("once", func(c Case) error { return checkOnce(c.World, c.Tracer, c.Concurrent) })

func contentOf(w world.World, pkg string) string {
	for _, p := range w.Remotes {
		pa, err := sourceaddrs.ParseRemotePackage(p.Addr)
		if err == nil && pa.String() == pkg {
			return p.Content
		}
	}
	return "?"
}

func shape(w world.World, exp world.Expect) string {
	dup := map[string]int{}
	for _, c := range w.Script {
		dup[fmt.Sprintf("%s|%s|%s|%s|%d", c.Kind, c.Addr, c.Allowed, c.Version, c.Finder)]++
	}
	for _, n := range dup {
		if n > 1 {
			return "duplicate-add"
		}
	}
	// a cycle or diamond: some artifact reachable along two different edges
	edges := 0
	for _, p := range w.Remotes {
		for _, m := range p.Modules {
			for _, ds := range m.Deps {
				edges += len(ds)
			}
		}
	}
	if edges > len(exp.Analysed) {
		return "cycle-or-diamond"
	}
	if len(exp.Analysed) > 1 {
		return "multi-artifact"
	}
	return ""
}

func checkOnce(w world.World, tracerMode string, concurrent bool) error {
	exp := world.Reference(w, nFinders)
	if exp.Error != "" {
		ev.Label("reference-predicts-error")
		return nil
	}
	if exp.Ambiguous {
		ev.Label("ambiguous-twins")
		return nil
	}
	arena, cleanup := fsx.Scratch("c14-")
	defer cleanup()
	h := world.NewHarness(w, nFinders)
	expectedEvents := 4*len(exp.Analysed) + 8*len(exp.Packages) + 8*len(exp.Versions) + 8*len(exp.Selections) + 8*len(w.Script)
	h.Budget = 100 + 10*expectedEvents
	run, err := world.Start(h, world.TargetDir(arena))
	if err != nil {
		return fmt.Errorf("harness: %v", err)
	}
	ctx := h.Context(tracerMode)
	if concurrent {
		// the same work, asked for from several goroutines at once: still done once
		h.OnBoundary = func(string) { time.Sleep(100 * time.Microsecond) }
		results := make([]world.CallResult, len(w.Script))
		var wg sync.WaitGroup
		for i := range w.Script {
			wg.Add(1)
			go func(i int) {
				defer wg.Done()
				time.Sleep(time.Duration(150*i) * time.Microsecond)
				results[i] = run.DoCall(ctx, w.Script[i])
			}(i)
		}
		wg.Wait()
		h.OnBoundary = nil
		for i, res := range results {
			if res.Panicked != nil {
				return fmt.Errorf("concurrent Add call %+v panicked: %v", w.Script[i], res.Panicked)
			}
			if res.Diags.HasErrors() {
				return fmt.Errorf("fault-free build (concurrent Add calls) reported errors for %+v: %v", w.Script[i], diagStrings(res))
			}
		}
	}
	for _, c := range w.Script {
		if concurrent {
			break
		}
		res := run.DoCall(ctx, c)
		if h.Overbudget {
			return fmt.Errorf("the build does not terminate: more than %d callbacks for a closure of %d artifacts (last events: %v)", h.Budget, len(exp.Analysed), tailEvents(h.Log, 6))
		}
		if res.Panicked != nil {
			return fmt.Errorf("Add call %+v panicked: %v", c, res.Panicked)
		}
		if res.Diags.HasErrors() {
			return fmt.Errorf("fault-free build reported errors for %+v: %v", c, diagStrings(res))
		}
	}
	if s := shape(w, exp); s != "" {
		ev.NonTrivial(Case{w, tracerMode, concurrent}, s)
	}
	// ---- counts
	fetches := map[string]int{}
	versionsReq := map[string]int{}
	sourceReq := map[string]int{}
	analyses := map[string]int{}
	for _, e := range h.Log {
		switch e.Kind {
		case "fetch":
			fetches[e.Key]++
		case "versions":
			versionsReq[e.Key]++
		case "source":
			sourceReq[e.Key]++
		case "analyse":
			analyses[e.Key]++
		}
	}
	for pkg := range exp.Packages {
		if fetches[pkg] != 1 {
			return fmt.Errorf("package %s was fetched %d times, expected exactly once (fetch log %v)", pkg, fetches[pkg], fetches)
		}
	}
	for pkg, n := range fetches {
		if !exp.Packages[pkg] {
			return fmt.Errorf("package %s was fetched (%d times) although nothing in the closure refers to it", pkg, n)
		}
	}
	for pkg := range exp.Versions {
		if versionsReq[pkg] != 1 {
			return fmt.Errorf("version list of %s requested %d times, expected once", pkg, versionsReq[pkg])
		}
	}
	for pkg, n := range versionsReq {
		if !exp.Versions[pkg] {
			return fmt.Errorf("version list of %s requested %d times although it is not in the closure", pkg, n)
		}
	}
	wantSource := map[string]bool{}
	for _, s := range exp.Selections {
		v, _ := versions.ParseVersion(s.Version)
		wantSource[s.Pkg+"@"+v.Comparable().String()] = true
	}
	gotSource := map[string]int{}
	for k, n := range sourceReq {
		pkg, vs, _ := strings.Cut(k, "@")
		v, _ := versions.ParseVersion(vs)
		gotSource[pkg+"@"+v.Comparable().String()] += n
	}
	for k := range wantSource {
		if gotSource[k] != 1 {
			return fmt.Errorf("source address of %s requested %d times, expected once (log %v)", k, gotSource[k], sourceReq)
		}
	}
	for k, n := range gotSource {
		if !wantSource[k] {
			return fmt.Errorf("source address of %s requested %d times although that version is not selected by anything", k, n)
		}
	}
	wantAnalyses := map[string]int{}
	for a := range exp.Analysed {
		src, _ := sourceaddrs.ParseRemoteSource(a.Source)
		wantAnalyses[fmt.Sprintf("%s//%s#f%d", contentOf(w, src.Package().String()), src.SubPath(), a.Finder)]++
	}
	for k, n := range wantAnalyses {
		if analyses[k] != n {
			return fmt.Errorf("(source, finder) %s analysed %d times, expected %d (analysis log %v)", k, analyses[k], n, analyses)
		}
	}
	for k, n := range analyses {
		if wantAnalyses[k] == 0 {
			return fmt.Errorf("(source, finder) %s analysed %d times but is not in the closure", k, n)
		}
	}
	// ---- trace bracketing (needs every callback)
	if tracerMode == "" || tracerMode == "full" {
		if err := world.CheckBracketing(h.Log); err != nil {
			return err
		}
	}
	return nil
}

func diagStrings(r world.CallResult) []string {
	var out []string
	for _, d := range r.Diags {
		out = append(out, world.DiagString(d))
	}
	return out
}

func tailEvents(log []world.Event, n int) []string {
	var out []string
	for i := len(log) - n; i < len(log); i++ {
		if i >= 0 {
			out = append(out, log[i].Kind+" "+log[i].Key)
		}
	}
	return out
}

func TestPropOnce(t *testing.T) {
	ev.Check(t, subOnce, func(t *rapid.T) Case {
		w := world.Gen(t, world.Config{MaxRemotes: 4, MaxRegistry: 3, NFinders: nFinders, Clones: true, Diags: true})
		// repeats in the script
		if len(w.Script) > 0 && rapid.IntRange(0, 2).Draw(t, "repeat?") == 0 {
			w.Script = append(w.Script, w.Script[rapid.IntRange(0, len(w.Script)-1).Draw(t, "which")])
		}
		mode := "full"
		switch rapid.IntRange(0, 5).Draw(t, "tracer") {
		case 0:
			mode = "none"
		case 1, 2:
			mode = fmt.Sprintf("partial:%d", rapid.IntRange(1, 2047).Draw(t, "bits"))
		}
		return Case{World: w, Tracer: mode, Concurrent: rapid.IntRange(0, 3).Draw(t, "concurrent") == 0}
	})
}

// ---------------------------------------------------------------------------
// exhaustive small worlds: n module locations, every edge in {none, remote, registry}

var locSubs = []string{"", "modules/a", "modules/b"}

func smallWorld(n int, edges []int, separate bool, script []int) world.World {
	var w world.World
	addrOf := func(i int) string {
		if separate {
			return fmt.Sprintf("git::https://example.com/e%d.git", i)
		}
		if locSubs[i] == "" {
			return "git::https://example.com/e.git"
		}
		return "git::https://example.com/e.git//" + locSubs[i]
	}
	regOf := func(i int) string { return fmt.Sprintf("example.com/ns/loc%d/aws", i) }
	mods := make([]world.Module, n)
	for i := 0; i < n; i++ {
		sub := locSubs[i]
		if separate {
			sub = ""
		}
		mods[i] = world.Module{Sub: sub, Deps: map[string][]world.Dep{"0": nil}}
		for j := 0; j < n; j++ {
			switch edges[i*n+j] {
			case 1:
				mods[i].Deps["0"] = append(mods[i].Deps["0"], world.Dep{Kind: "remote", Addr: addrOf(j)})
			case 2:
				mods[i].Deps["0"] = append(mods[i].Deps["0"], world.Dep{Kind: "registry", Addr: regOf(j)})
			}
		}
	}
	if separate {
		for i := 0; i < n; i++ {
			w.Remotes = append(w.Remotes, world.RemotePkg{Addr: fmt.Sprintf("git::https://example.com/e%d.git", i), Content: fmt.Sprintf("e%d", i), Modules: []world.Module{mods[i]}})
		}
	} else {
		w.Remotes = []world.RemotePkg{{Addr: "git::https://example.com/e.git", Content: "e", Modules: mods}}
	}
	usesReg := map[int]bool{}
	for i := 0; i < n; i++ {
		for j := 0; j < n; j++ {
			if edges[i*n+j] == 2 {
				usesReg[j] = true
			}
		}
	}
	for j := 0; j < n; j++ {
		if usesReg[j] {
			w.Registry = append(w.Registry, world.RegistryPkg{Addr: regOf(j), Versions: []world.RegVersion{{V: "1.0.0", Real: addrOf(j)}, {V: "0.9.0", Real: addrOf((j + 1) % n)}}})
		}
	}
	for _, s := range script {
		w.Script = append(w.Script, world.AddCall{Kind: "remote", Addr: addrOf(s % n)})
	}
	return w
}

func TestExhaustiveGraphs(t *testing.T) {
	k, nsh := ev.Shard()
	n := ev.EnvInt("VERIF_C14_LOCS", 2)
	total := 1
	for i := 0; i < n*n; i++ {
		total *= 3
	}
	scripts := [][]int{{0}, {0, 1, 0}}
	idx := 0
	for code := 0; code < total; code++ {
		edges := make([]int, n*n)
		c := code
		for i := range edges {
			edges[i] = c % 3
			c /= 3
		}
		for _, separate := range []bool{false, true} {
			for _, sc := range scripts {
				idx++
				if code%nsh != k {
					continue
				}
				mode := []string{"full", "none", "partial:2", "partial:18"}[idx%4]
				subOnce.Do(Case{World: smallWorld(n, edges, separate, sc), Tracer: mode, Concurrent: idx%5 == 0})
			}
		}
	}
	ev.Exhaustive(fmt.Sprintf("all %d edge assignments in {none, remote, via registry} over %d module locations x {one package, separate packages} x 2 scripts", total, n), true)
}

func TestReplay(t *testing.T) { ev.Replay(t) }
func TestKnown(t *testing.T)  { ev.KnownFindings(t) }

var _ = sort.Strings

// ---------------------------------------------------------------------------
// the trace stays truthful when a fetch / registry call fails: every start is
// followed by exactly one success or failure, and an 'already' event never
// refers to work that did not complete.

type FaultedCase struct {
	World world.World `json:"world"`
	Fault world.Fault `json:"fault"`
}

var subFaultedTrace = ev.Register("faultedtrace", func(c FaultedCase) error {
	if exp := world.Reference(c.World, nFinders); exp.Error != "" || exp.Ambiguous {
		ev.Label("not-judged")
		return nil
	}
	arena, cleanup := fsx.Scratch("c14f-")
	defer cleanup()
	h := world.NewHarness(c.World, nFinders)
	h.Faults = []world.Fault{c.Fault}
	h.Budget = 20000
	run, err := world.Start(h, world.TargetDir(arena))
	if err != nil {
		return fmt.Errorf("harness: %v", err)
	}
	ctx := h.Context("full")
	boundaries := 0
	if c.Fault.Kind == "cancel" {
		// the caller gives up at the n-th callback boundary: whatever is in progress may fail, but is still reported
		var cancel context.CancelFunc
		ctx, cancel = context.WithCancel(ctx)
		defer cancel()
		var mu sync.Mutex
		h.OnBoundary = func(string) {
			mu.Lock()
			boundaries++
			if boundaries == c.Fault.N {
				cancel()
			}
			mu.Unlock()
		}
	}
	for _, call := range c.World.Script {
		res := run.DoCall(ctx, call)
		if res.Panicked != nil || res.Diags.HasErrors() {
			break
		}
	}
	if h.Overbudget {
		return fmt.Errorf("the build does not terminate after fault %v", c.Fault)
	}
	if h.Count(c.Fault.Kind) >= c.Fault.N || (c.Fault.Kind == "cancel" && boundaries >= c.Fault.N) {
		ev.NonTrivial(c, "fault-fired")
	}
	if err := world.CheckBracketing(h.Log); err != nil {
		return fmt.Errorf("with fault %v: %v", c.Fault, err)
	}
	return nil
})

func TestPropFaultedTrace(t *testing.T) {
	ev.Check(t, subFaultedTrace, func(t *rapid.T) FaultedCase {
		w := world.Gen(t, world.Config{MaxRemotes: 3, MaxRegistry: 2, NFinders: nFinders})
		f := world.Fault{Kind: rapid.SampledFrom([]string{"fetch", "fetch-hazard", "cancel", "cancel", "versions", "versions-empty", "source", "source", "finder-error"}).Draw(t, "kind"), N: rapid.IntRange(1, 3).Draw(t, "n")}
		if f.Kind == "cancel" {
			f.N = rapid.IntRange(1, 14).Draw(t, "boundary")
		}
		return FaultedCase{World: w, Fault: f}
	})
}
