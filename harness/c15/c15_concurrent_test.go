package c15

// Several Unpack calls on one Packer value at the same time, each with its own
// archive and its own destination: every destination ends up as if its archive
// had been unpacked alone. Run in a -race binary: a report with a go-slug frame
// is a violation as well.

import (
	"bytes"
	"fmt"
	"os"
	"path/filepath"
	"strings"
	"sync"
	"testing"

	slug "github.com/hashicorp/go-slug"
	"pgregory.net/rapid"

	"verif/lib/ev"
	"verif/lib/fsx"
	"verif/lib/tarx"
)

type ConcUnpackCase struct {
	Members [][]tarx.Entry `json:"members"`
}

var subConcUnpack = ev.Register("concurrentunpack", func(c ConcUnpackCase) error {
	r, cleanup := fsx.Scratch("c15c-")
	defer cleanup()
	type res struct {
		err      error
		panicked any
	}
	slugs := make([][]byte, len(c.Members))
	for i, m := range c.Members {
		b, err := tarx.Build(m, nil)
		if err != nil {
			ev.Label("archive-not-buildable")
			return nil
		}
		slugs[i] = b
	}
	// alone, each with a Packer of its own
	alone := make([]map[string]fsx.Entry, len(slugs))
	aloneErr := make([]error, len(slugs))
	for i, b := range slugs {
		dst := filepath.Join(r, fmt.Sprintf("alone%d", i))
		os.Mkdir(dst, 0755)
		p, _ := slug.NewPacker()
		aloneErr[i] = p.Unpack(bytes.NewReader(b), dst)
		alone[i], _ = fsx.Snapshot(dst, nil)
	}
	ev.NonTrivial(c, "unpacks-sharing-one-packer")
	shared, _ := slug.NewPacker()
	out := make([]res, len(slugs))
	var wg sync.WaitGroup
	start := make(chan struct{})
	for i := range slugs {
		dst := filepath.Join(r, fmt.Sprintf("conc%d", i))
		os.Mkdir(dst, 0755)
		wg.Add(1)
		go func(i int, dst string) {
			defer wg.Done()
			defer func() { out[i].panicked = recover() }()
			<-start
			out[i].err = shared.Unpack(bytes.NewReader(slugs[i]), dst)
		}(i, dst)
	}
	close(start)
	wg.Wait()
	for i := range slugs {
		if out[i].panicked != nil {
			return fmt.Errorf("member %d: Unpack panicked while others ran on the same Packer: %v", i, out[i].panicked)
		}
		if (out[i].err == nil) != (aloneErr[i] == nil) {
			return fmt.Errorf("member %d: Unpack returned %v while others ran on the same Packer, %v alone", i, out[i].err, aloneErr[i])
		}
		if aloneErr[i] != nil {
			continue
		}
		got, _ := fsx.Snapshot(filepath.Join(r, fmt.Sprintf("conc%d", i)), nil)
		delete(got, ".")
		delete(alone[i], ".")
		// link times are not prescribed; those of directories depend on whether an entry named them (C15's interpreter judges that)
		for _, m := range []map[string]fsx.Entry{got, alone[i]} {
			for k, e := range m {
				if e.Type == "symlink" || e.Type == "dir" {
					e.Mtime = 0
					m[k] = e
				}
			}
		}
		if d := fsx.Diff(alone[i], got, "mode size mtime target sum"); len(d) > 0 {
			if len(d) > 4 {
				d = d[:4]
			}
			return fmt.Errorf("member %d: destination differs from what the same archive gives alone: %s", i, strings.Join(d, "; "))
		}
	}
	return nil
})

func TestRaceConcurrentUnpack(t *testing.T) {
	ev.Check(t, subConcUnpack, func(t *rapid.T) ConcUnpackCase {
		n := rapid.IntRange(2, 5).Draw(t, "members")
		var c ConcUnpackCase
		for i := 0; i < n; i++ {
			k := rapid.IntRange(1, 6).Draw(t, "entries")
			var m []tarx.Entry
			for j := 0; j < k; j++ {
				size := rapid.SampledFrom([]int{0, 10, 4096, 70000, 200000}).Draw(t, "size")
				name := fmt.Sprintf("d%d/f%d", j%2, j)
				switch rapid.IntRange(0, 5).Draw(t, "kind") {
				case 0:
					m = append(m, tarx.Entry{Name: fmt.Sprintf("d%d/", j%2), Type: "dir", Mode: 0750, Sec: 1500000000 + int64(j)})
				case 1:
					m = append(m, tarx.Entry{Name: fmt.Sprintf("l%d", j), Type: "symlink", Mode: 0777, Link: fmt.Sprintf("d%d", j%2), Sec: 1500000000})
				default:
					m = append(m, tarx.Entry{Name: name, Type: "file", Mode: 0644, Sec: 1500000100 + int64(j),
						Body: strings.Repeat(fmt.Sprintf("%c", 'A'+i), size)})
				}
			}
			if rapid.IntRange(0, 3).Draw(t, "offender") == 0 {
				// a pair that only the pass over all extracted links finds out
				m = append(m, tarx.Entry{Name: "a", Type: "symlink", Mode: 0777, Link: "."}, tarx.Entry{Name: "esc", Type: "symlink", Mode: 0777, Link: "a/.."})
			}
			c.Members = append(c.Members, m)
		}
		return c
	})
}
