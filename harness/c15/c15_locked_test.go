package c15

// Directories recorded without search permission: an unprivileged Unpack
// cannot finish restoring what lies below them once the parent's mode is in
// place. Either it says so (error), or the result is exactly what the archive
// records - a nil return with children left half-restored is neither.

import (
	"fmt"
	"os"
	"path/filepath"
	"testing"

	"pgregory.net/rapid"

	"verif/lib/ev"
	"verif/lib/fsx"
	"verif/lib/pk"
	"verif/lib/tarx"
)

type LockedCase struct {
	ParentMode int64 `json:"parent_mode"`
	ChildMode  int64 `json:"child_mode"`
	ChildFirst bool  `json:"child_first"` // the child directory's entry comes before its parent's
	Grandchild bool  `json:"grandchild"`
}

var subLocked = ev.Register("lockeddir", func(c LockedCase) error {
	r, cleanup := fsx.Scratch("c15l-")
	defer cleanup()
	dst := filepath.Join(r, "dst")
	os.Mkdir(dst, 0755)
	parent := tarx.Entry{Name: "p/", Type: "dir", Mode: c.ParentMode, Sec: 1500000100, Format: "ustar"}
	child := tarx.Entry{Name: "p/c/", Type: "dir", Mode: c.ChildMode, Sec: 1500000200, Format: "ustar"}
	entries := []tarx.Entry{parent, child}
	if c.ChildFirst {
		entries = []tarx.Entry{child, parent}
	}
	if c.Grandchild {
		entries = append(entries, tarx.Entry{Name: "p/c/f", Type: "file", Mode: 0644, Sec: 1500000300, Body: "IN:f", Format: "ustar"})
	}
	data, err := tarx.Build(entries, nil)
	if err != nil {
		return fmt.Errorf("harness: %v", err)
	}
	ev.NonTrivial(c, "directory-without-search-permission")
	uerr, panicked := pk.Unpack(pk.Opts{}, nil, data, dst)
	if panicked != nil {
		return fmt.Errorf("Unpack panicked: %v", panicked)
	}
	if uerr != nil {
		ev.Label("unpack-error")
		return nil
	}
	ev.Label("unpack-ok")
	// nil: everything must be as recorded. Look at p first, then open it up to look inside.
	pi, err := os.Lstat(filepath.Join(dst, "p"))
	if err != nil {
		return fmt.Errorf("Unpack returned nil but p is missing: %v", err)
	}
	if int64(pi.Mode().Perm()) != c.ParentMode || pi.ModTime().Unix() != 1500000100 {
		return fmt.Errorf("Unpack returned nil but p has mode %04o mtime %d, recorded %04o 1500000100", pi.Mode().Perm(), pi.ModTime().Unix(), c.ParentMode)
	}
	os.Chmod(filepath.Join(dst, "p"), 0700)
	ci, err := os.Lstat(filepath.Join(dst, "p", "c"))
	if err != nil {
		return fmt.Errorf("Unpack returned nil but p/c is missing: %v", err)
	}
	if int64(ci.Mode().Perm()) != c.ChildMode || ci.ModTime().Unix() != 1500000200 {
		return fmt.Errorf("Unpack returned nil but p/c (below a directory recorded with mode %04o) has mode %04o mtime %d, recorded %04o 1500000200", c.ParentMode, ci.Mode().Perm(), ci.ModTime().Unix(), c.ChildMode)
	}
	return nil
})

func TestPropLockedDir(t *testing.T) {
	ev.Check(t, subLocked, func(t *rapid.T) LockedCase {
		return LockedCase{ParentMode: rapid.SampledFrom([]int64{0000, 0200, 0400, 0600, 0300, 0100, 0500, 0700}).Draw(t, "pmode"),
			ChildMode: rapid.SampledFrom([]int64{0755, 0700, 0500, 0000}).Draw(t, "cmode"), ChildFirst: rapid.Bool().Draw(t, "childfirst"), Grandchild: rapid.Bool().Draw(t, "grandchild")}
	})
}
