// C15 — Unpack materialises exactly what a well-formed archive says.
// Oracle: reference sequential interpreter (lib/refunpack). DESIGN.md §5 C15.
package c15

import (
	"fmt"
	"os"
	"path/filepath"
	"sort"
	"strings"
	"testing"

	"pgregory.net/rapid"

	"verif/lib/ev"
	"verif/lib/fsx"
	"verif/lib/pk"
	"verif/lib/refunpack"
	"verif/lib/tarx"
)

func TestMain(m *testing.M) { ev.Main(m, "C15") }

type Case struct {
	Entries []tarx.Entry `json:"entries"`
	// the slug is a gzip stream of two members, cut in front of this entry (0 = one member)
	Split int `json:"split,omitempty"`
}

var subInterp = ev.Register("interpret", checkInterpret)

func unprivileged() bool { return os.Getuid() != 0 }

func nontrivial(c Case) (bool, string) {
	seen := map[string]int{}
	for i, e := range c.Entries {
		if e.Type == "xglobal" {
			return true, "pax-global-header"
		}
		if len(e.PAX) > 0 || e.Format == "pax" {
			return true, "pax-extended-header"
		}
		p := refunpack.Normalise(e.Name)
		if _, dup := seen[p]; dup {
			return true, "duplicate-path"
		}
		seen[p] = i
	}
	for i, e := range c.Entries {
		p := refunpack.Normalise(e.Name)
		for j := i + 1; j < len(c.Entries); j++ {
			q := refunpack.Normalise(c.Entries[j].Name)
			if strings.HasPrefix(p, q+"/") && c.Entries[j].Type == "dir" {
				return true, "child-before-parent"
			}
		}
		if strings.HasPrefix(e.Name, "/") || strings.HasPrefix(e.Name, "./") {
			return true, "leading-slash-or-dot"
		}
		if e.Type == "dir" && e.Mode&0777 != 0755 {
			return true, "restrictive-directory-mode"
		}
		if e.Type == "file" && e.Mode&0222 == 0 {
			return true, "read-only-file"
		}
		switch e.Type {
		case "hardlink", "fifo", "char", "block":
			return true, "unrepresentable-type"
		}
	}
	return false, ""
}

func checkInterpret(c Case) error {
	r, cleanup := fsx.Scratch("c15-")
	defer cleanup()
	dst := filepath.Join(r, "dst")
	if err := os.Mkdir(dst, 0755); err != nil {
		return fmt.Errorf("harness: %v", err)
	}
	data, err := tarx.BuildSplit(c.Entries, nil, c.Split)
	if err != nil {
		ev.Label("archive-not-buildable")
		return nil
	}
	if ok, why := nontrivial(c); ok {
		ev.NonTrivial(c, why)
	}
	model := refunpack.Interpret(c.Entries)
	uerr, panicked := pk.Unpack(pk.Opts{}, nil, data, dst)
	if panicked != nil {
		return fmt.Errorf("Unpack panicked: %v", panicked)
	}
	if model.MustError {
		ev.Label("class:must-error")
		if uerr == nil {
			return fmt.Errorf("archive with %v was unpacked without error (entry dropped instead of refused)", model.Why)
		}
		return nil
	}
	if uerr != nil {
		if model.MayError {
			ev.Label("class:may-error-and-did")
			return nil
		}
		if unprivileged() && hasUnsearchableDir(c) {
			ev.Label("class:unpriv-unsearchable-dir-error")
			return nil
		}
		return fmt.Errorf("Unpack failed on a well-formed archive whose sequential reading is defined: %v", uerr)
	}
	if model.MayError {
		ev.Label("class:may-error-but-succeeded")
	} else {
		ev.Label("class:definite")
	}
	// compare dst with the model
	got, err := fsx.Snapshot(dst, nil)
	if err != nil {
		return fmt.Errorf("harness: snapshot: %v", err)
	}
	var problems []string
	for _, p := range model.Paths() {
		n := model.Tree[p]
		g, ok := got[p]
		if !ok {
			problems = append(problems, fmt.Sprintf("%s (%s) missing", p, n.Kind))
			continue
		}
		if g.Type != n.Kind {
			problems = append(problems, fmt.Sprintf("%s: is a %s, sequential reading says %s", p, g.Type, n.Kind))
			continue
		}
		switch n.Kind {
		case "file":
			if g.Sum == "unreadable" {
				// unprivileged and mode without owner-read: compare size only
				if g.Size != int64(len(n.Content)) {
					problems = append(problems, fmt.Sprintf("%s: size %d, want %d", p, g.Size, len(n.Content)))
				}
			} else if want, _ := sumOf(n.Content); g.Sum != want {
				problems = append(problems, fmt.Sprintf("%s: content differs from the last entry for that path (size %d, want %d)", p, g.Size, len(n.Content)))
			}
			if int64(g.Mode&0777) != n.Perm {
				problems = append(problems, fmt.Sprintf("%s: permission bits %04o, recorded %04o", p, g.Mode&0777, n.Perm))
			}
			if g.Mtime != n.MtimeNs {
				problems = append(problems, fmt.Sprintf("%s: mtime %d, recorded %d", p, g.Mtime, n.MtimeNs))
			}
		case "dir":
			if n.Explicit {
				if int64(g.Mode&0777) != n.Perm {
					problems = append(problems, fmt.Sprintf("%s/: permission bits %04o, recorded %04o", p, g.Mode&0777, n.Perm))
				}
				if g.Mtime != n.MtimeNs {
					problems = append(problems, fmt.Sprintf("%s/: mtime %d, recorded %d (directory times must be applied after its contents)", p, g.Mtime, n.MtimeNs))
				}
			}
		case "symlink":
			if g.Target != n.Target {
				problems = append(problems, fmt.Sprintf("%s: link target %q, recorded %q", p, g.Target, n.Target))
			}
		}
	}
	if model.Root != nil {
		// an entry for the archive root prescribes mode and time of the destination directory
		if g, ok := got["."]; ok {
			if int64(g.Mode&0777) != model.Root.Perm {
				problems = append(problems, fmt.Sprintf("destination directory: permission bits %04o, the archive's root entry records %04o", g.Mode&0777, model.Root.Perm))
			}
			if g.Mtime != model.Root.MtimeNs {
				problems = append(problems, fmt.Sprintf("destination directory: mtime %d, the archive's root entry records %d", g.Mtime, model.Root.MtimeNs))
			}
		}
	}
	for p, g := range got {
		if p == "." {
			continue
		}
		if _, ok := model.Tree[p]; !ok {
			problems = append(problems, fmt.Sprintf("%s (%s) exists but no entry prescribes it", p, g.Type))
		}
	}
	if len(problems) > 0 {
		sort.Strings(problems)
		if len(problems) > 6 {
			problems = problems[:6]
		}
		return fmt.Errorf("destination differs from the sequential reading: %s", strings.Join(problems, "; "))
	}
	return nil
}

func hasUnsearchableDir(c Case) bool {
	for _, e := range c.Entries {
		if e.Type == "dir" && e.Mode&0500 != 0500 {
			return true
		}
	}
	return false
}

func sumOf(content string) (string, error) {
	f, err := os.CreateTemp(os.Getenv("VERIF_SCRATCH"), "sum-")
	if err != nil {
		return "", err
	}
	defer os.Remove(f.Name())
	f.WriteString(content)
	f.Close()
	e, err := fsx.Stat(f.Name(), true)
	return e.Sum, err
}

// ---------------------------------------------------------------------------
// exhaustive enumeration over a 18-variant alphabet

var alphabet = []tarx.Entry{
	{Name: "a", Type: "file", Mode: 0644, Sec: 1500000001, Body: "X", Format: "ustar"},
	{Name: "a", Type: "file", Mode: 0444, Sec: 1500000002, Nsec: 123456789, Body: "YY", Format: "pax"},
	{Name: "a/b", Type: "file", Mode: 0600, Sec: 1500000003, Body: "ZZZ", Format: "gnu"},
	{Name: "a/", Type: "dir", Mode: 0755, Sec: 1500000004, Format: "ustar"},
	{Name: "a/", Type: "dir", Mode: 0555, Sec: 1500000005, Nsec: 500000000, Format: "pax"},
	{Name: "a/b/", Type: "dir", Mode: 0700, Sec: 1500000006, Format: "gnu"},
	{Name: "a", Type: "symlink", Mode: 0777, Sec: 1500000007, Link: "d"},
	{Name: "l", Type: "symlink", Mode: 0777, Sec: 1500000008, Link: "a/b", Format: "pax"},
	{Name: "d", Type: "file", Mode: 0640, Sec: 1500000009, Body: "", Format: "ustar"},
	{Name: "d/", Type: "dir", Mode: 0500, Sec: 1500000010, Format: "ustar"},
	{Name: "d/e", Type: "file", Mode: 0400, Sec: 1500000011, Body: "E", Format: "pax", PAX: map[string]string{"comment": "hello"}},
	{Name: "/a", Type: "file", Mode: 0755, Sec: 1500000012, Body: "slash", Format: "gnu"},
	{Name: "./a/b/c", Type: "file", Mode: 0644, Sec: 1500000013, Body: "deep", Format: "ustar"},
	{Name: "pax_global_header", Type: "xglobal", PAX: map[string]string{"comment": "global"}},
	{Name: "h", Type: "hardlink", Mode: 0644, Sec: 1500000014, Link: "a"},
	{Name: "a/b", Type: "file", Mode: 0000, Sec: 1500000015, Body: "locked", Format: "ustar"},
	{Name: "d", Type: "file", Mode: 0644, Sec: 1500000016, Asec: 1400000000, Body: "atime", Format: "pax"},
	{Name: "a/", Type: "dir", Mode: 0750, Sec: 1500000017, Asec: 1600000000, Format: "gnu"},
}

func TestExhaustive(t *testing.T) {
	k, n := ev.Shard()
	maxLen := ev.EnvInt("VERIF_C15_MAXLEN", 2)
	i := 0
	var rec func(cur []tarx.Entry)
	rec = func(cur []tarx.Entry) {
		if len(cur) > 0 {
			i++
			if i%n == k {
				subInterp.Do(Case{Entries: append([]tarx.Entry{}, cur...)})
			}
		}
		if len(cur) == maxLen {
			return
		}
		for _, a := range alphabet {
			rec(append(cur, a))
		}
	}
	rec(nil)
	ev.Exhaustive(fmt.Sprintf("all entry sequences of length<=%d over a %d-variant alphabet (uid %d)", maxLen, len(alphabet), os.Getuid()), true)
}

// ---------------------------------------------------------------------------
// rapid: longer sequences over a slightly larger universe

var paths = []string{"a", "a/b", "a/b/c", "d", "d/e", "l", "m/n/o", "a/x", "A", "A/b", "D", strings.Repeat("p", 120) + "/" + strings.Repeat("q", 110)}

func genEntry(unpriv bool) *rapid.Generator[tarx.Entry] {
	return rapid.Custom(func(t *rapid.T) tarx.Entry {
		e := tarx.Entry{Name: rapid.SampledFrom(paths).Draw(t, "path")}
		nested := strings.Contains(e.Name, "/")
		switch rapid.IntRange(0, 5).Draw(t, "lead") {
		case 0:
			e.Name = "/" + e.Name
		case 1:
			e.Name = "./" + e.Name
		}
		k := rapid.IntRange(0, 99).Draw(t, "kind")
		e.Format = rapid.SampledFrom([]string{"ustar", "pax", "gnu", ""}).Draw(t, "format")
		if len(e.Name) > 95 && e.Format == "ustar" {
			e.Format = "pax"
		}
		e.Sec = 1500000000 + int64(rapid.IntRange(0, 99999).Draw(t, "sec"))
		switch rapid.IntRange(0, 39).Draw(t, "oddsec") {
		case 0:
			e.Sec = 0 // the epoch itself
		case 1:
			e.Sec = 1
		case 2:
			e.Sec = 4102444800
		}
		if e.Format == "pax" {
			e.Nsec = rapid.SampledFrom([]int64{0, 1, 400000000, 500000000, 999999999}).Draw(t, "nsec")
		}
		if (e.Format == "pax" || e.Format == "gnu") && rapid.IntRange(0, 3).Draw(t, "atime?") == 0 {
			e.Asec = rapid.SampledFrom([]int64{1400000000, 1600000000, 1}).Draw(t, "asec")
		}
		switch {
		case k < 45:
			e.Type = "file"
			e.Mode = rapid.SampledFrom([]int64{0644, 0444, 0600, 0755, 0400, 0000, 0200, 0666}).Draw(t, "fmode")
			e.Body = rapid.SampledFrom([]string{"", "1", "two", "body-three"}).Draw(t, "body")
		case k < 75:
			e.Type = "dir"
			e.Name += "/"
			if rapid.IntRange(0, 11).Draw(t, "rootentry") == 0 {
				// an entry for the archive root itself, as tar writes it for the packed directory
				e.Name = rapid.SampledFrom([]string{"./", ".", "/", "a/.."}).Draw(t, "rootname")
			}
			if unpriv {
				e.Mode = rapid.SampledFrom([]int64{0755, 0555, 0500, 0700, 0750, 0711}).Draw(t, "dmode")
			} else {
				e.Mode = rapid.SampledFrom([]int64{0755, 0555, 0500, 0700, 0000, 0300, 0711}).Draw(t, "dmode")
			}
		case k < 90:
			e.Type = "symlink"
			e.Mode = 0777
			e.Link = rapid.SampledFrom([]string{"a", "d", "a/b", "./d/e", "missing", "l"}).Draw(t, "target")
			if nested {
				e.Link = rapid.SampledFrom([]string{"c", "x", "../d", "../a/b", "b"}).Draw(t, "target2")
			}
		case k < 94:
			e.Type = "xglobal"
			e.Name = rapid.SampledFrom([]string{"pax_global_header", "pax_global_header", "stray/sub/pax_global_header", "a/pax_global_header"}).Draw(t, "gname")
			e.PAX = map[string]string{"comment": "g"}
			e.Format = ""
			e.Nsec = 0
		case k < 97:
			e.Type = rapid.SampledFrom([]string{"hardlink", "fifo", "char", "block"}).Draw(t, "bad")
			e.Link = "a"
			e.Nsec = 0
			if e.Format == "pax" {
				e.Format = ""
			}
		default:
			e.Type = "file"
			e.Mode = 0644
			e.Body = "with-pax-records"
			e.Format = "pax"
			e.PAX = map[string]string{"comment": "c", "VERIF.x": "y"}
		}
		return e
	})
}

func TestPropInterpret(t *testing.T) {
	unpriv := unprivileged()
	ev.Check(t, subInterp, func(t *rapid.T) Case {
		c := Case{Entries: rapid.SliceOfN(genEntry(unpriv), 1, 12).Draw(t, "entries")}
		if len(c.Entries) > 1 && rapid.IntRange(0, 5).Draw(t, "split?") == 0 {
			c.Split = rapid.IntRange(1, len(c.Entries)-1).Draw(t, "split")
		}
		return c
	})
}

// Pack-shaped archives must always be accepted: unique paths, parents first.
var subPackShaped = ev.Register("packshaped", func(c Case) error {
	m := refunpack.Interpret(c.Entries)
	if m.MayError || m.MustError {
		return fmt.Errorf("harness: pack-shaped generator produced an undefined sequence: %v", m.Why)
	}
	return checkInterpret(c)
})

func TestPropPackShaped(t *testing.T) {
	ev.Check(t, subPackShaped, func(t *rapid.T) Case {
		// a tree in walk order: dirs before their content, unique names
		var out []tarx.Entry
		var walk func(prefix string, depth int)
		n := 0
		walk = func(prefix string, depth int) {
			kids := rapid.IntRange(0, 3).Draw(t, "kids")
			for i := 0; i < kids && n < 14; i++ {
				n++
				name := fmt.Sprintf("%sn%d", prefix, i)
				sec := 1500000000 + int64(rapid.IntRange(0, 9999).Draw(t, "sec"))
				switch rapid.IntRange(0, 3).Draw(t, "kind") {
				case 0:
					if depth < 3 {
						out = append(out, tarx.Entry{Name: name + "/", Type: "dir", Sec: sec,
							Mode: rapid.SampledFrom([]int64{0755, 0555, 0500, 0700}).Draw(t, "dmode")})
						walk(name+"/", depth+1)
						continue
					}
					fallthrough
				case 1, 2:
					out = append(out, tarx.Entry{Name: name, Type: "file", Sec: sec, Body: "b" + name,
						Mode: rapid.SampledFrom([]int64{0644, 0444, 0400, 0755, 0600}).Draw(t, "fmode")})
				case 3:
					out = append(out, tarx.Entry{Name: name, Type: "symlink", Mode: 0777, Sec: sec, Link: "n0"})
				}
			}
		}
		walk("", 0)
		if len(out) == 0 {
			out = append(out, tarx.Entry{Name: "only", Type: "file", Mode: 0644, Sec: 1500000000, Body: "x"})
		}
		return Case{Entries: out}
	})
}

func TestReplay(t *testing.T) { ev.Replay(t) }
func TestKnown(t *testing.T)  { ev.KnownFindings(t) }
