package c16

// The source argument is a symlink whose relative target names nothing next
// to the link. It denotes no directory, whatever the working directory is:
// the outcome of Pack must not depend on where the process happens to stand.

import (
	"fmt"
	"path/filepath"
	"testing"

	"pgregory.net/rapid"

	"verif/lib/ev"
	"verif/lib/fsx"
	"verif/lib/pk"
)

type DanglingCase struct {
	Target string `json:"target"` // relative target of the link given as source; nothing of that name beside the link
	Ignore bool   `json:"ignore"`
}

var subDangling = ev.Register("danglingroot", func(c DanglingCase) error {
	r, cleanup := fsx.Scratch("c16g-")
	defer cleanup()
	tree := fsx.Tree{
		{Path: "links/l", Kind: "symlink", Target: c.Target},
		{Path: "links/other.txt", Kind: "file", Content: "IN:other", Mode: 0644, Sec: 1500000000},
		// directories of that name relative to other working directories
		{Path: "w1/" + c.Target + "/w1.txt", Kind: "file", Content: "OUT:w1", Mode: 0644, Sec: 1500000001},
		{Path: "w2/" + c.Target + "/w2.txt", Kind: "file", Content: "OUT:w2", Mode: 0644, Sec: 1500000002},
		{Path: "w3/empty", Kind: "dir", Mode: 0755},
	}
	if err := fsx.Materialise(r, tree, nil); err != nil {
		return fmt.Errorf("harness: %v", err)
	}
	o := pk.Opts{Ignore: c.Ignore}
	arg := filepath.Join(r, "links", "l")
	ev.NonTrivial(c, "source-is-a-dangling-link")
	base, berr := packAt(filepath.Join(r, "links"), arg, o, nil)
	for _, cwd := range []string{"w1", "w2", "w3", "/"} {
		dir := cwd
		if cwd != "/" {
			dir = filepath.Join(r, cwd)
		}
		got, gerr := packAt(dir, arg, o, nil)
		if gerr != berr || diffDecoded(base, got) != "" {
			if ev.IsKnown("c16-dangling-root-link-read-against-cwd") {
				ev.Excluded("c16-dangling-root-link-read-against-cwd")
				return nil
			}
			return fmt.Errorf("Pack(<R>/links/l) with l -> %q (nothing of that name beside the link): outcome %q %v from the working directory <R>/links, %q %v from <R>/%s", c.Target, berr, namesOf(base), gerr, namesOf(got), cwd)
		}
	}
	return nil
})

func TestPropDanglingRoot(t *testing.T) {
	ev.Check(t, subDangling, func(t *rapid.T) DanglingCase {
		return DanglingCase{Target: rapid.SampledFrom([]string{"sub", "./sub", "a/b", "sub/", "../w3/gone"}).Draw(t, "target"), Ignore: rapid.Bool().Draw(t, "ignore")}
	})
}
