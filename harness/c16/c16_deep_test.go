package c16

// Dereferenced directories nested close to the limit Pack imposes: whether
// the tree still packs must not depend on how the source directory is spelled
// (directly, with a trailing slash, by way of one or several symlinks).

import (
	"fmt"
	"os"
	"path/filepath"
	"testing"

	"pgregory.net/rapid"

	"verif/lib/ev"
	"verif/lib/fsx"
	"verif/lib/pk"
)

type DeepCase struct {
	Depth  int  `json:"depth"` // number of external directories nested inside one another
	Chain  int  `json:"chain"` // number of symlinks the alternative spelling goes through
	Ignore bool `json:"ignore"`
}

var subDeep = ev.Register("deepderef", func(c DeepCase) error {
	r, cleanup := fsx.Scratch("c16d-")
	defer cleanup()
	tree := fsx.Tree{{Path: "src/keep.txt", Kind: "file", Content: "IN:keep", Mode: 0644, Sec: 1500000000},
		{Path: "src/next", Kind: "symlink", Target: "../e0"}}
	for i := 0; i < c.Depth; i++ {
		tree = append(tree, fsx.Node{Path: fmt.Sprintf("e%d/f%d.txt", i, i), Kind: "file", Content: fmt.Sprintf("OUT:%d", i), Mode: 0644, Sec: 1500000000})
		if i+1 < c.Depth {
			tree = append(tree, fsx.Node{Path: fmt.Sprintf("e%d/next", i), Kind: "symlink", Target: fmt.Sprintf("../e%d", i+1)})
		}
	}
	// spellings through links: ln1 -> src, ln2 -> ln1, ...
	for k := 1; k <= c.Chain; k++ {
		target := "src"
		if k > 1 {
			target = fmt.Sprintf("ln%d", k-1)
		}
		tree = append(tree, fsx.Node{Path: fmt.Sprintf("ln%d", k), Kind: "symlink", Target: target})
	}
	if err := fsx.Materialise(r, tree, nil); err != nil {
		return fmt.Errorf("harness: %v", err)
	}
	o := pk.Opts{Deref: true, Ignore: c.Ignore}
	src := filepath.Join(r, "src")
	base, berr := packAt("/", src, o, nil)
	ev.NonTrivialKey(fmt.Sprintf("deep:%d:%d", c.Depth, c.Chain), "nesting-near-the-limit")
	ev.LabelIf(berr == "", "deep-pack-ok")
	ev.LabelIf(berr != "", "deep-pack-refused")
	spellings := map[string]string{"trailing slash": src + "/", "dot segment": r + "/./src", "relative": "src"}
	if c.Chain > 0 {
		spellings[fmt.Sprintf("through %d symlink(s)", c.Chain)] = filepath.Join(r, fmt.Sprintf("ln%d", c.Chain))
	}
	for what, sp := range spellings {
		cwd := "/"
		if !filepath.IsAbs(sp) {
			cwd = r
		}
		got, gerr := packAt(cwd, sp, o, nil)
		if gerr != berr {
			return fmt.Errorf("%d nested dereferenced directories: outcome %q for the plain spelling, %q for the spelling %s", c.Depth, berr, gerr, what)
		}
		if d := diffDecoded(base, got); d != "" {
			return fmt.Errorf("%d nested dereferenced directories, spelling %s: %s", c.Depth, what, d)
		}
	}
	return nil
})

func TestPropDeepDeref(t *testing.T) {
	ev.Check(t, subDeep, func(t *rapid.T) DeepCase {
		return DeepCase{Depth: rapid.IntRange(34, 44).Draw(t, "depth"), Chain: rapid.IntRange(0, 4).Draw(t, "chain"), Ignore: rapid.Bool().Draw(t, "ignore")}
	})
}

var _ = os.Getenv
