// C16 — Pack output depends only on the tree and the options.
// Metamorphic: same tree, different spelling / cwd / history / packer reuse /
// concurrent schedule => same decoded slug. DESIGN.md §5 C16.
package c16

import (
	"bytes"
	"context"
	"fmt"
	iofs "io/fs"
	"net/url"
	"os"
	"path/filepath"
	"reflect"
	"strings"
	"sync"
	"testing"

	slug "github.com/hashicorp/go-slug"
	"github.com/hashicorp/go-slug/sourceaddrs"
	"github.com/hashicorp/go-slug/sourcebundle"
	"pgregory.net/rapid"

	"verif/lib/ev"
	"verif/lib/fsx"
	"verif/lib/pk"
	"verif/lib/rgen"
	"verif/lib/tarx"
	"verif/lib/tgen"
)

func TestMain(m *testing.M) { ev.Main(m, "C16") }

type Case struct {
	Tree    fsx.Tree `json:"tree"`
	Rules   *string  `json:"rules,omitempty"`
	Opts    pk.Opts  `json:"opts"`
	Variant string   `json:"variant,omitempty"` // "" = all variants; otherwise only that one (replay)
	History []string `json:"history,omitempty"`
}

func withRules(tr fsx.Tree, rules *string) fsx.Tree {
	if rules == nil {
		return tr
	}
	return append(fsx.Tree{{Path: ".terraformignore", Kind: "file", Content: *rules, Mode: 0644, Sec: 1500000000}}, tr...)
}

func decodeOrErr(data []byte, err error, panicked any) ([]tarx.Decoded, string) {
	if panicked != nil {
		return nil, fmt.Sprintf("panic: %v", panicked)
	}
	if err != nil {
		return nil, "error"
	}
	d, derr := tarx.Decode(data)
	if derr != nil {
		return nil, "undecodable: " + derr.Error()
	}
	return d, ""
}

type variant struct {
	name string
	cwd  string // relative to R
	arg  string // with {R} placeholder when absolute
	// class of root-link handling this variant needs
	class string
}

var variants = []variant{
	{"rel-from-parent", ".", "src", ""},
	{"dot-rel-from-parent", ".", "./src", ""},
	{"trailing-slash-rel", ".", "src/", ""},
	{"trailing-dot", ".", "src/.", ""},
	{"double-slash-rel", ".", ".//src", ""},
	{"up-and-down", "other", "../src", ""},
	{"from-inside-dot", "src", ".", ""},
	{"from-inside-dotslash", "src", "./", ""},
	{"from-inside-updown", "src", "../src", ""},
	{"abs-trailing-slash", "other", "{R}/src/", ""},
	{"abs-dot-segments", "other", "{R}/./other/../src", ""},
	{"abs-double-slash", "/", "{R}//src", ""},
	{"below-symlinked-parent", "other", "{R}/parentlink/src", "parent-link"},
	{"below-symlinked-parent-rel", ".", "parentlink/src", "parent-link"},
	{"dots-behind-symlink", "other", "{R}/hop/../../src", "link-chain"},
	{"dots-behind-symlink-last", "other", "{R}/hop2/..", "link-chain"},
	{"link-target-dots-behind-symlink", "other", "{R}/lndots2", "link-chain"},
	{"link-abs-target-dots-behind-symlink", "other", "{R}/lndots3", "link-chain"},
	{"dots-behind-symlink-rel", ".", "hop/../../src", "link-chain"},
	{"link-abs-target", "other", "{R}/lnabs", "link"},
	{"link-abs-target-rel-spelling", ".", "lnabs", "link"},
	{"link-rel-target-from-its-dir", "links", "lnrel", "link"},
	{"link-rel-target-from-elsewhere", "other", "{R}/links/lnrel", "link-rel-cwd"},
	{"link-rel-target-rel-spelling", ".", "links/lnrel", "link-rel-cwd"},
	{"link-rel-target-from-decoy-cwd", "other/sub", "{R}/links/lnrel", "link-rel-cwd"},
	{"link-chain", "other", "{R}/ln2", "link-chain"},
	{"link-chain-across-dirs", "other/sub", "{R}/chainA/deep/first", "link-chain"},
	{"link-chain-descending", "other", "{R}/c1/first", "link-chain"},
	{"link-to-link-abs-trailing-slash", "other", "{R}/lnslash", "link-chain"},
	{"link-to-link-rel-trailing-slash", "other", "{R}/lnslashrel", "link-chain"},
	{"link-abs-target-dot-segments", "other", "{R}/lndots", "link-chain"},
	{"link-chain-across-dirs-rel", "chainA/deep", "first", "link-chain"},
	// the working directory was entered through a symlink and $PWD still spells it that way (what a shell's cd leaves behind)
	{"rel-updown-logical-pwd", "hop", "../../src", "logical-pwd"},
	{"rel-updown-logical-pwd-slash", "hop", "../../src/", "logical-pwd"},
	{"rel-name-logical-pwd", "parentlink/other", "../src", "logical-pwd"},
	{"link-trailing-slash", "other", "{R}/lnabs/", "link-slash"},
	{"link-rel-trailing-slash", "other", "{R}/links/lnrel/", "link-slash"},
}

var subSpelling = ev.Register("spelling", checkSpelling)

func setupArena(c Case) (r, src string, vars map[string]string, cleanup func(), err error) {
	r, cleanup = fsx.Scratch("c16-")
	src = filepath.Join(r, "src")
	vars = map[string]string{"R": r}
	if err = fsx.Materialise(src, withRules(c.Tree, c.Rules), vars); err != nil {
		cleanup()
		return
	}
	extra := fsx.Tree{
		{Path: "ext/f", Kind: "file", Content: "OUT:ext-f", Mode: 0644, Sec: 1400000000},
		{Path: "h/ext/f", Kind: "file", Content: "OUT:other-ext-f", Mode: 0644, Sec: 1400000000},
		{Path: "other", Kind: "dir", Mode: 0755},
		{Path: "other/src", Kind: "dir", Mode: 0755}, // a different directory that a cwd-relative reading could pick up
		{Path: "other/src/DECOY", Kind: "file", Content: "OUT:decoy", Mode: 0644},
		{Path: "other/sub", Kind: "dir", Mode: 0755},
		{Path: "links", Kind: "dir", Mode: 0755},
		{Path: "links/lnrel", Kind: "symlink", Target: "../src"},
		{Path: "lnabs", Kind: "symlink", Target: "{R}/src"},
		{Path: "parentlink", Kind: "symlink", Target: "."},
		{Path: "ln2", Kind: "symlink", Target: "lnabs"},
		{Path: "hop", Kind: "symlink", Target: "other/sub"},
		{Path: "src/zz-hop-target", Kind: "dir", Mode: 0755},
		{Path: "hop2", Kind: "symlink", Target: "src/zz-hop-target"},
		{Path: "lndots2", Kind: "symlink", Target: "hop/../../src"},
		{Path: "lndots3", Kind: "symlink", Target: "{R}/hop/../../src"},
		{Path: "c1/first", Kind: "symlink", Target: "d/second"},
		{Path: "c1/d/second", Kind: "symlink", Target: "t"},
		{Path: "c1/d/t", Kind: "symlink", Target: "{R}/src"},
		{Path: "lnslash", Kind: "symlink", Target: "{R}/lnabs/"},
		{Path: "lnslashrel", Kind: "symlink", Target: "lnabs/"},
		{Path: "lndots", Kind: "symlink", Target: "{R}/other/../lnabs/."},
		{Path: "chainA/deep/first", Kind: "symlink", Target: "../../chainB/second"},
		{Path: "chainB/second", Kind: "symlink", Target: "../src"},
	}
	err = fsx.Materialise(r, extra, vars)
	if err != nil {
		cleanup()
	}
	return
}

func packAt(cwd, arg string, o pk.Opts, vars map[string]string) ([]tarx.Decoded, string) {
	old, _ := os.Getwd()
	if err := os.Chdir(cwd); err != nil {
		return nil, "harness-chdir: " + err.Error()
	}
	defer os.Chdir(old)
	data, _, err, panicked := pk.PackBytes(o, vars, arg)
	return decodeOrErr(data, err, panicked)
}

func diffDecoded(a, b []tarx.Decoded) string {
	if len(a) != len(b) {
		return fmt.Sprintf("%d entries vs %d (%v vs %v)", len(a), len(b), namesOf(a), namesOf(b))
	}
	for i := range a {
		if !reflect.DeepEqual(a[i], b[i]) {
			return fmt.Sprintf("entry %d differs: %+v vs %+v", i, a[i], b[i])
		}
	}
	return ""
}

func namesOf(d []tarx.Decoded) []string {
	var out []string
	for _, e := range d {
		out = append(out, e.Name)
	}
	return out
}

func hasAbsOrOutwardLink(t fsx.Tree) bool {
	for _, n := range t {
		if n.Kind == "symlink" && (strings.HasPrefix(n.Target, "/") || strings.HasPrefix(n.Target, "{") || strings.Contains(n.Target, "..")) {
			return true
		}
	}
	return false
}

func checkSpelling(c Case) error {
	r, src, vars, cleanup, err := setupArena(c)
	if err != nil {
		return fmt.Errorf("harness: %v", err)
	}
	defer cleanup()
	base, berr := packAt("/", src, c.Opts, vars)
	if strings.HasPrefix(berr, "panic") {
		return fmt.Errorf("Pack panicked: %s", berr)
	}
	f := tgen.Describe(c.Tree)
	if f.Link || c.Opts.Ignore {
		ev.NonTrivial(c, "tree-with-links-or-ignore")
	}
	for _, v := range variants {
		if c.Variant != "" && c.Variant != v.name {
			continue
		}
		switch v.class {
		case "link-rel-cwd":
			if ev.IsKnown("c16-root-link-relative-to-cwd") {
				ev.Excluded("c16-root-link-relative-to-cwd")
				continue
			}
		case "parent-link":
			// known finding: link targets are compared with the source root and the
			// allow list as text, so a source spelled through a symlinked parent
			// disagrees with absolute or outward targets spelled the direct way
			if hasAbsOrOutwardLink(c.Tree) && ev.IsKnown("c16-symlinked-parent-lexical-compare") {
				ev.Excluded("c16-symlinked-parent-lexical-compare")
				continue
			}
		case "link-chain", "link-slash":
			if ev.IsKnown("c16-root-link-not-fully-resolved") {
				ev.Excluded("c16-root-link-not-fully-resolved")
				continue
			}
		}
		ev.Eval()
		if v.class == "logical-pwd" {
			oldPWD, had := os.LookupEnv("PWD")
			os.Setenv("PWD", filepath.Join(r, v.cwd))
			defer func() {
				if had {
					os.Setenv("PWD", oldPWD)
				} else {
					os.Unsetenv("PWD")
				}
			}()
		}
		got, gerr := packAt(filepath.Join(r, v.cwd), fsx.Subst(v.arg, vars), c.Opts, vars)
		if v.class == "logical-pwd" {
			os.Unsetenv("PWD")
		}
		if v.cwd == "/" {
			got, gerr = packAt("/", fsx.Subst(v.arg, vars), c.Opts, vars)
		}
		if gerr != berr {
			c.Variant = v.name
			return fmt.Errorf("variant %s (cwd %s, source %q): outcome %q, baseline (clean absolute path) outcome %q", v.name, v.cwd, v.arg, gerr, berr)
		}
		if d := diffDecoded(base, got); d != "" {
			c.Variant = v.name
			return fmt.Errorf("variant %s (cwd %s, source %q) produced a different slug: %s", v.name, v.cwd, v.arg, d)
		}
		ev.Label("variant-equal:" + v.class)
	}
	return nil
}

// ---------------------------------------------------------------------------
// history and packer reuse

var subHistory = ev.Register("history", checkHistory)

type memFetcher struct{ tree fsx.Tree }

func (f memFetcher) FetchSourcePackage(ctx context.Context, st string, u *url.URL, dir string) (sourcebundle.FetchSourcePackageResponse, error) {
	return sourcebundle.FetchSourcePackageResponse{}, fsx.Materialise(dir, f.tree, nil)
}

type noDeps struct{}

func (noDeps) FindDependencies(fsys iofs.FS, subPath string, deps *sourcebundle.Dependencies) sourcebundle.Diagnostics {
	return nil
}

var historyOps = []string{"pack-parent", "pack-dot-elsewhere", "pack-dot-elsewhere", "pack-negation-first", "pack-many-rules", "pack-unreadable-rules", "pack-other-tree-links", "unpack", "bundle", "pack-same", "pack-deref-loop-fails", "pack-fails-midway"}

func runHistoryOp(op, r string, i int, p *slug.Packer) {
	defer func() { recover() }()
	// one level deeper than the tree under test, so that a relative allow-list
	// entry means a different directory here
	dir := filepath.Join(r, "h", fmt.Sprintf("hist%d", i))
	switch op {
	case "pack-parent":
		// the directory above the tree under test packed as a source of its own: whatever is remembered
		// about directories by their path (depth below the root, ...) was learnt for another root
		func() {
			defer func() { recover() }()
			p.Pack(r, &bytes.Buffer{})
		}()
	case "pack-negation-first":
		fsx.Materialise(dir, fsx.Tree{{Path: ".terraformignore", Kind: "file", Content: "!keep.txt\n*.txt\n!/sub/\n"},
			{Path: "keep.txt", Kind: "file", Content: "k"}, {Path: "x.txt", Kind: "file", Content: "x"}, {Path: ".git/config", Kind: "file", Content: "g"}}, nil)
		p.Pack(dir, &bytes.Buffer{})
	case "pack-dot-elsewhere":
		// the same spelling "." from another working directory, with other rules
		fsx.Materialise(dir, fsx.Tree{{Path: ".terraformignore", Kind: "file", Content: "*\n!keep\n"},
			{Path: "keep", Kind: "file", Content: "k"}, {Path: "a", Kind: "file", Content: "x"}, {Path: "l", Kind: "symlink", Target: "a"}}, nil)
		old, _ := os.Getwd()
		if os.Chdir(dir) == nil {
			p.Pack(".", &bytes.Buffer{})
			os.Chdir(old)
		}
	case "pack-many-rules":
		fsx.Materialise(dir, fsx.Tree{{Path: ".terraformignore", Kind: "file", Content: strings.Repeat("a*\n!ab\n/c/\n", 12)},
			{Path: "ab", Kind: "file", Content: "k"}, {Path: "c/d", Kind: "file", Content: "x"}}, nil)
		p.Pack(dir, &bytes.Buffer{})
	case "pack-unreadable-rules":
		fsx.Materialise(dir, fsx.Tree{{Path: ".terraformignore", Kind: "dir", Mode: 0755}, {Path: "f", Kind: "file", Content: "k"}}, nil)
		devnull, _ := os.Open(os.DevNull)
		old := os.Stderr
		os.Stderr = devnull // Pack reports the unreadable rule file on stderr
		p.Pack(dir, &bytes.Buffer{})
		os.Stderr = old
		devnull.Close()
	case "pack-deref-loop-fails":
		// with dereferencing this Pack fails deep inside nested external directories
		fsx.Materialise(filepath.Join(r, "h"), fsx.Tree{{Path: "cycdir/f", Kind: "file", Content: "OUT:f"}, {Path: "cycdir/again", Kind: "symlink", Target: "."}}, nil)
		fsx.Materialise(dir, fsx.Tree{{Path: "a", Kind: "file", Content: "k"}, {Path: "l", Kind: "symlink", Target: "../cycdir"}}, nil)
		p.Pack(dir, &bytes.Buffer{})
	case "pack-fails-midway":
		// a Pack that fails part-way: an out-of-tree link that may not be stored, after other entries
		fsx.Materialise(dir, fsx.Tree{{Path: "a", Kind: "file", Content: "k"}, {Path: "d/x", Kind: "file", Content: "x"}, {Path: "zz", Kind: "symlink", Target: "../../nowhere/at/all"}}, nil)
		p.Pack(dir, &bytes.Buffer{})
	case "pack-other-tree-links":
		fsx.Materialise(dir, fsx.Tree{{Path: "a", Kind: "file", Content: "k"}, {Path: "l", Kind: "symlink", Target: "a"},
			{Path: "d/up", Kind: "symlink", Target: "../a"}, {Path: "out", Kind: "symlink", Target: "../ext/f"}}, nil)
		p.Pack(dir, &bytes.Buffer{})
	case "unpack":
		data, _ := tarx.Build([]tarx.Entry{{Name: "f", Type: "file", Mode: 0644, Body: "x"}, {Name: "l", Type: "symlink", Link: "f"}}, nil)
		os.MkdirAll(dir, 0755)
		p.Unpack(bytes.NewReader(data), dir)
	case "bundle":
		os.MkdirAll(dir, 0755)
		b, err := sourcebundle.NewBuilder(dir, memFetcher{fsx.Tree{{Path: ".terraformignore", Kind: "file", Content: "!x\n*.log\n"}, {Path: "m.tf", Kind: "file", Content: "m"}}}, nil)
		if err == nil {
			b.AddRemoteSource(context.Background(), sourceaddrs.MustParseSource("https://example.com/h.tgz").(sourceaddrs.RemoteSource), noDeps{})
			b.Close()
		}
	}
}

func checkHistory(c Case) error {
	r, src, vars, cleanup, err := setupArena(c)
	if err != nil {
		return fmt.Errorf("harness: %v", err)
	}
	defer cleanup()
	base, berr := packAt("/", src, c.Opts, vars)
	if len(c.History) > 0 {
		ev.NonTrivial(c, "history-before-pack")
	}
	// the packer under test is the one that performed the history
	p, perr := c.Opts.Packer(vars)
	if perr != nil {
		return fmt.Errorf("harness: %v", perr)
	}
	for i, op := range c.History {
		if op == "pack-same" {
			p.Pack(src, &bytes.Buffer{})
			continue
		}
		runHistoryOp(op, r, i, p)
	}
	var buf bytes.Buffer
	var panicked any
	var gerrv error
	arg := src
	for _, op := range c.History {
		if op == "pack-dot-elsewhere" {
			arg = "." // same spelling as in the history, now from inside the tree under test
		}
	}
	func() {
		defer func() { panicked = recover() }()
		if arg == "." {
			old, _ := os.Getwd()
			if err := os.Chdir(src); err != nil {
				panic("harness-chdir")
			}
			defer os.Chdir(old)
		}
		_, gerrv = p.Pack(arg, &buf)
	}()
	got, gerr := decodeOrErr(buf.Bytes(), gerrv, panicked)
	if gerr != berr {
		return fmt.Errorf("after history %v the same Pack has outcome %q, fresh baseline %q", c.History, gerr, berr)
	}
	if d := diffDecoded(base, got); d != "" {
		return fmt.Errorf("after history %v (same Packer value) Pack produced a different slug: %s", c.History, d)
	}
	// and once more with a fresh packer
	got2, gerr2 := packAt("/", src, c.Opts, vars)
	if gerr2 != berr || diffDecoded(base, got2) != "" {
		return fmt.Errorf("after history %v a fresh Packer produced a different slug: %s %s", c.History, gerr2, diffDecoded(base, got2))
	}
	return nil
}

// ---------------------------------------------------------------------------
// concurrency (run from a -race binary by the driver)

type ConcCase struct {
	Members []Case `json:"members"`
	Rounds  int    `json:"rounds"`
	// "" each call makes its own Packer | "shared": one Packer value (member 0's options) serves every goroutine |
	// "pkgfunc": the package-level Pack(src, w, dereference), each member with its own flag
	Mode string `json:"mode,omitempty"`
}

var subConcurrent = ev.Register("concurrent", checkConcurrent)

// "race" replays re-run the same round; the race detector's report is picked
// up by the driver.
var subRace = ev.Register("race", func(c map[string]any) error { return nil })

func checkConcurrent(cc ConcCase) error {
	type member struct {
		src   string
		vars  map[string]string
		opts  pk.Opts
		clean func()
	}
	var ms []member
	defer func() {
		for _, m := range ms {
			m.clean()
		}
	}()
	for _, c := range cc.Members {
		_, src, vars, cleanup, err := setupArena(c)
		if err != nil {
			return fmt.Errorf("harness: %v", err)
		}
		ms = append(ms, member{src: src, vars: vars, opts: c.Opts, clean: cleanup})
	}
	ev.NonTrivial(cc, "concurrent-packs")
	var shared *slug.Packer
	switch cc.Mode {
	case "shared":
		var err error
		shared, err = ms[0].opts.Packer(ms[0].vars)
		if err != nil {
			return fmt.Errorf("harness: %v", err)
		}
		for i := range ms {
			ms[i].opts, ms[i].vars = ms[0].opts, ms[0].vars
		}
	case "pkgfunc":
		for i := range ms {
			ms[i].opts = pk.Opts{Deref: ms[i].opts.Deref, Ignore: true}
		}
	}
	// The concurrent phase comes first: state that go-slug initialises lazily
	// or mutates on first use is then touched by several goroutines at once.
	type result struct {
		got  []tarx.Decoded
		gerr string
	}
	results := make([][]result, len(ms))
	var wg sync.WaitGroup
	start := make(chan struct{})
	for i := range ms {
		wg.Add(1)
		go func(i int) {
			defer wg.Done()
			<-start
			m := ms[i]
			for k := 0; k < cc.Rounds; k++ {
				var data []byte
				var err error
				var panicked any
				switch cc.Mode {
				case "shared":
					var buf bytes.Buffer
					func() {
						defer func() { panicked = recover() }()
						_, err = shared.Pack(m.src, &buf)
					}()
					data = buf.Bytes()
				case "pkgfunc":
					var buf bytes.Buffer
					func() {
						defer func() { panicked = recover() }()
						_, err = slug.Pack(m.src, &buf, m.opts.Deref)
					}()
					data = buf.Bytes()
				default:
					data, _, err, panicked = pk.PackBytes(m.opts, m.vars, m.src)
				}
				got, gerr := decodeOrErr(data, err, panicked)
				results[i] = append(results[i], result{got, gerr})
			}
		}(i)
	}
	close(start)
	wg.Wait()
	// sequential baselines afterwards
	for i := range ms {
		base, berr := packAt("/", ms[i].src, ms[i].opts, ms[i].vars)
		for k, r := range results[i] {
			if r.gerr != berr {
				return fmt.Errorf("member %d round %d: outcome %q while others were packing, %q alone", i, k, r.gerr, berr)
			}
			if d := diffDecoded(base, r.got); d != "" {
				return fmt.Errorf("member %d round %d: slug differs from the one produced alone: %s", i, k, d)
			}
		}
	}
	return nil
}

// ---------------------------------------------------------------------------

func genCase(t *rapid.T) Case {
	c := Case{Tree: tgen.Gen(t, tgen.Config{MaxNodes: 12, Links: true, IgnoreNames: true, Special: true})}
	c.Opts.Deref = rapid.Bool().Draw(t, "deref")
	c.Opts.Ignore = rapid.Bool().Draw(t, "ignore")
	if rapid.IntRange(0, 3).Draw(t, "allow?") == 0 {
		c.Opts.Allow = []string{rapid.SampledFrom([]string{"../ext", "../ext/f", "{R}/ext"}).Draw(t, "allow")}
		has := false
		for _, n := range c.Tree {
			if n.Path == "to-ext" {
				has = true
			}
		}
		if !has {
			c.Tree = append(c.Tree, fsx.Node{Path: "to-ext", Kind: "symlink", Target: "../ext/f"})
		}
	}
	if rapid.IntRange(0, 2).Draw(t, "extdir?") == 0 {
		// a link to a directory outside the tree (copied in when dereferencing)
		has := false
		for _, n := range c.Tree {
			if n.Path == "to-extdir" {
				has = true
			}
		}
		if !has {
			c.Tree = append(c.Tree, fsx.Node{Path: "to-extdir", Kind: "symlink", Target: "../h/ext"})
		}
	}
	if rapid.IntRange(0, 2).Draw(t, "rulesfile") > 0 {
		var paths []string
		for _, n := range c.Tree {
			paths = append(paths, n.Path)
		}
		lines := rgen.GenRuleLines(t, paths...)
		if rapid.IntRange(0, 3).Draw(t, "negfirst") == 0 {
			lines = append([]string{"!" + rgen.GenPattern(t)}, lines...)
		}
		s := rgen.Render(lines, false)
		c.Rules = &s
	}
	return c
}

func TestPropSpelling(t *testing.T) {
	ev.Check(t, subSpelling, genCase)
}

func TestPropHistory(t *testing.T) {
	ev.Check(t, subHistory, func(t *rapid.T) Case {
		c := genCase(t)
		c.History = rapid.SliceOfN(rapid.SampledFrom(historyOps), 0, 5).Draw(t, "history")
		return c
	})
}

func TestPropConcurrent(t *testing.T) {
	ev.Check(t, subConcurrent, func(t *rapid.T) ConcCase {
		n := rapid.IntRange(2, 8).Draw(t, "k")
		cc := ConcCase{Rounds: rapid.IntRange(1, 4).Draw(t, "rounds")}
		for i := 0; i < n; i++ {
			c := genCase(t)
			c.Opts.Ignore = true
			switch i {
			case 0:
				s := "!first-is-negation\n*.log\n"
				c.Rules = &s
			case 1:
				c.Rules = nil
			}
			cc.Members = append(cc.Members, c)
		}
		cc.Mode = rapid.SampledFrom([]string{"", "", "shared", "pkgfunc"}).Draw(t, "mode")
		if cc.Mode == "shared" {
			// the shared Packer carries option lists of various lengths (what a call appends to one of them must stay its own)
			for i := 0; i < rapid.IntRange(0, 7).Draw(t, "allowpad"); i++ {
				cc.Members[0].Opts.Allow = append(cc.Members[0].Opts.Allow, fmt.Sprintf("{R}/nowhere%d", i))
			}
		}
		return cc
	})
}

func TestReplay(t *testing.T) { ev.Replay(t) }
func TestKnown(t *testing.T)  { ev.KnownFindings(t) }
