// C17 — registry sources resolve to the newest allowed version.
package c17

import (
	"fmt"
	"strings"
	"testing"

	"github.com/apparentlymart/go-versions/versions"
	"github.com/hashicorp/go-slug/sourceaddrs"
	"pgregory.net/rapid"

	"verif/lib/ev"
	"verif/lib/fsx"
	"verif/lib/world"
)

func TestMain(m *testing.M) { ev.Main(m, "C17") }

var subSelect = ev.Register("select", checkSelect)

func regOf(w world.World, pkg string) *world.RegistryPkg {
	for i := range w.Registry {
		pa, err := sourceaddrs.ParseRegistryPackage(w.Registry[i].Addr)
		if err == nil && pa.String() == pkg {
			return &w.Registry[i]
		}
	}
	return nil
}

func checkSelect(w world.World) error {
	arena, cleanup := fsx.Scratch("c17-")
	defer cleanup()
	h := world.NewHarness(w, 1)
	run, err := world.Start(h, world.TargetDir(arena))
	if err != nil {
		return fmt.Errorf("harness: %v", err)
	}
	ctx := h.Context("full")
	type want struct {
		call   world.AddCall
		maxima []world.RegVersion
		ok     bool
	}
	var wants []want
	failedAt := -1
	ascending := true
	for i, c := range w.Script {
		// the registry requests this call makes: its own, or - for a remote
		// package - those its root module reports as dependencies in one go
		reqs := []world.AddCall{c}
		if c.Kind == "remote" {
			reqs = nil
			for _, p := range w.Remotes {
				if p.Addr != c.Addr {
					continue
				}
				for _, d := range p.Modules[0].Deps["0"] {
					reqs = append(reqs, world.AddCall{Kind: "registry", Addr: d.Addr, Allowed: d.Allowed})
				}
			}
		}
		allOK := true
		var firstBad string
		for _, rq := range reqs {
			rs, err := sourceaddrs.ParseRegistrySource(rq.Addr)
			if err != nil {
				return fmt.Errorf("harness: %v", err)
			}
			rp := regOf(w, rs.Package().String())
			allowedText := rq.Allowed
			if rq.Kind == "final" {
				allowedText = rq.Version
			}
			set, err := world.AllowedSet(allowedText)
			if err != nil {
				return fmt.Errorf("harness: bad constraint %q", allowedText)
			}
			maxima, ok := world.Select(*rp, set)
			if !ok && allOK {
				allOK = false
				firstBad = fmt.Sprintf("no offered version of %s is allowed by %q", rp.Addr, allowedText)
			}
			if failedAt < 0 {
				wants = append(wants, want{rq, maxima, ok})
			}
			for j := 1; j < len(rp.Versions); j++ {
				a, _ := versions.ParseVersion(rp.Versions[j-1].V)
				b, _ := versions.ParseVersion(rp.Versions[j].V)
				if world.Less(b, a) {
					ascending = false
				}
			}
		}
		res := run.DoCall(ctx, c)
		if failedAt >= 0 {
			// the builder must refuse every use after an error
			if res.Panicked == nil {
				return fmt.Errorf("call %d (%+v) was accepted although call %d had reported an error", i, c, failedAt)
			}
			continue
		}
		if res.Panicked != nil {
			return fmt.Errorf("call %d (%+v) panicked: %v", i, c, res.Panicked)
		}
		if !allOK {
			if !res.Diags.HasErrors() {
				return fmt.Errorf("%s (requests of call %d: %+v), but the call reported no error", firstBad, i, reqs)
			}
			failedAt = i
			continue
		}
		if res.Diags.HasErrors() {
			var msgs []string
			for _, d := range res.Diags {
				msgs = append(msgs, world.DiagString(d))
			}
			return fmt.Errorf("every request of call %d (%+v) has an offered and allowed version, but the call failed: %s", i, reqs, strings.Join(msgs, " || "))
		}
		if len(reqs) > 1 {
			ev.Label("several-requests-one-analysis")
		}
	}
	// classification
	for _, wn := range wants {
		rs, _ := sourceaddrs.ParseRegistrySource(wn.call.Addr)
		rp := regOf(w, rs.Package().String())
		if wn.ok && len(rp.Versions) >= 3 && !ascending {
			// is the overall newest excluded?
			all, _ := world.Select(*rp, versions.All)
			if len(all) > 0 && all[0].V != wn.maxima[0].V {
				ev.NonTrivial(w, "constraint-excludes-newest-unordered-listing")
				break
			}
		}
	}
	if len(w.Script) > 1 {
		ev.NonTrivial(w, "several-requests-same-build")
	}
	run.Close()
	if failedAt >= 0 {
		if run.ClosePanic == nil {
			return fmt.Errorf("Close returned (bundle %v, err %v) after call %d had failed: no bundle may come out of a failed build", run.Bundle != nil, run.CloseErr, failedAt)
		}
		return nil
	}
	if run.ClosePanic != nil || run.CloseErr != nil {
		return fmt.Errorf("Close failed: %v %v", run.CloseErr, run.ClosePanic)
	}
	b := run.Bundle
	// per request: some maximal version is in the bundle and points at the registry's address for it
	selected := map[string]bool{}
	for _, wn := range wants {
		rs, _ := sourceaddrs.ParseRegistrySource(wn.call.Addr)
		pkg := rs.Package()
		found := false
		for _, m := range wn.maxima {
			v, _ := versions.ParseVersion(m.V)
			realSrc, _ := sourceaddrs.ParseRemoteSource(m.Real)
			got, ok := b.RegistryPackageSourceAddr(pkg, v)
			if !ok {
				continue
			}
			if got != realSrc {
				return fmt.Errorf("%s %s: bundle records source %s, the registry named %s for that version", pkg, m.V, got, realSrc)
			}
			p1, err := b.LocalPathForRegistrySource(rs, v)
			if err != nil {
				return fmt.Errorf("LocalPathForRegistrySource(%s, %s): %v", rs, v, err)
			}
			p2, err := b.LocalPathForRemoteSource(rs.FinalSourceAddr(realSrc))
			if err != nil || p1 != p2 {
				return fmt.Errorf("%s at %s resolves to %q, the registry's address for that version is at %q (%v)", rs, v, p1, p2, err)
			}
			// deprecation note of exactly that version
			dep := b.RegistryPackageVersionDeprecation(pkg, v)
			switch {
			case m.Deprecation == nil && dep != nil:
				return fmt.Errorf("%s %s: bundle records deprecation %+v, the registry attached none to that version", pkg, m.V, *dep)
			case m.Deprecation != nil && dep == nil:
				return fmt.Errorf("%s %s: the registry's deprecation note (%q) is missing from the bundle", pkg, m.V, m.Deprecation.Reason)
			case m.Deprecation != nil && (dep.Reason != m.Deprecation.Reason || dep.Link != m.Deprecation.Link):
				return fmt.Errorf("%s %s: bundle records deprecation (%q, %q), the registry attached (%q, %q) to that version", pkg, m.V, dep.Reason, dep.Link, m.Deprecation.Reason, m.Deprecation.Link)
			}
			found = true
			selected[pkg.String()+"@"+v.String()] = true
		}
		if !found {
			return fmt.Errorf("request %+v: none of the newest allowed versions %v is in the bundle (bundle has %v)", wn.call, vnames(wn.maxima), b.RegistryPackageVersions(pkg))
		}
	}
	// globally: the bundle holds nothing but versions that are maximal for some request
	for _, pkg := range b.RegistryPackages() {
		for _, v := range b.RegistryPackageVersions(pkg) {
			okv := false
			for _, wn := range wants {
				rs, _ := sourceaddrs.ParseRegistrySource(wn.call.Addr)
				if rs.Package() != pkg {
					continue
				}
				for _, m := range wn.maxima {
					mv, _ := versions.ParseVersion(m.V)
					if mv.Same(v) {
						okv = true
					}
				}
			}
			if !okv {
				return fmt.Errorf("the bundle contains %s %s, which is not the newest allowed version of any request", pkg, v)
			}
		}
	}
	// the registry was asked for source addresses of selected versions only
	for _, e := range h.Log {
		if e.Kind != "source" {
			continue
		}
		pkgS, vs, _ := strings.Cut(e.Key, "@")
		v, _ := versions.ParseVersion(vs)
		okv := false
		for _, wn := range wants {
			rs, _ := sourceaddrs.ParseRegistrySource(wn.call.Addr)
			if rs.Package().String() != pkgS {
				continue
			}
			for _, m := range wn.maxima {
				mv, _ := versions.ParseVersion(m.V)
				if mv.Same(v) {
					okv = true
				}
			}
		}
		if !okv {
			return fmt.Errorf("the registry was asked for the source of %s, which is not the newest allowed version of any request", e.Key)
		}
	}
	return nil
}

func vnames(vs []world.RegVersion) []string {
	var out []string
	for _, v := range vs {
		out = append(out, v.V)
	}
	return out
}

var offered = []string{"0.0.0", "0.0.0-beta", "0.1.0", "1.0.0", "1.0.1", "1.1.0", "1.2.3", "1.9.9", "1.10.0", "2.0.0-alpha", "2.0.0-beta", "2.0.0-rc1", "2.0.0", "2.1.0-alpha", "3.0.0", "10.0.0", "0.0.1"}
var constraintPool = []string{"", "", "released", "0.0.0", "< 0.0.1", "<= 0.0.0", ">= 1.0.0", "~> 1.0", "~> 1.0.0", "~> 1.1", "< 2.0.0", ">= 1.0.0, < 1.5.0", "1.0.0", "= 1.2.3", "!= 3.0.0", ">= 2.0.0-beta", "> 50.0.0",
	"~> 2.0", "<= 1.2.3", "2.0.0-rc1", "< 1.0.0", ">= 1.1.0, != 1.2.3, < 2.0.0", "> 1.0.0, < 1.0.1", ">= 2.0.0-alpha, < 2.0.0", "~> 0.1", ">= 10.0.0", "< 10.0.0"}

func genWorld(t *rapid.T) world.World {
	var w world.World
	w.Remotes = []world.RemotePkg{
		{Addr: "git::https://example.com/a.git", Content: "a", Modules: []world.Module{{Sub: ""}, {Sub: "modules/a"}}},
		{Addr: "https://example.com/b.tgz", Content: "b", Modules: []world.Module{{Sub: ""}, {Sub: "x"}}},
	}
	nreg := rapid.IntRange(1, 2).Draw(t, "nreg")
	for k := 0; k < nreg; k++ {
		rp := world.RegistryPkg{Addr: []string{"example.com/ns/r0/aws", "ns/r0/aws"}[k]} // same namespace/name/system on two hosts
		vs := rapid.SliceOfNDistinct(rapid.SampledFrom(offered), 1, 8, func(s string) string { return s }).Draw(t, "offered")
		for j, v := range vs {
			if rapid.IntRange(0, 7).Draw(t, "twin?") == 0 {
				// a build-metadata twin of the same precedence
				tw := world.RegVersion{V: v + "+b", Real: "https://example.com/b.tgz//x"}
				if rapid.Bool().Draw(t, "twindep") {
					tw.Deprecation = &struct {
						Reason string `json:"reason"`
						Link   string `json:"link"`
					}{"twin of " + v, "https://example.com/twin"}
				}
				rp.Versions = append(rp.Versions, tw)
				v += "+a"
			}
			rv := world.RegVersion{V: v, Real: []string{"git::https://example.com/a.git", "git::https://example.com/a.git//modules/a", "https://example.com/b.tgz", "https://example.com/b.tgz//x"}[(j+rapid.IntRange(0, 3).Draw(t, "real"))%4]}
			if rapid.IntRange(0, 2).Draw(t, "dep?") == 0 {
				rv.Deprecation = &struct {
					Reason string `json:"reason"`
					Link   string `json:"link"`
				}{rapid.SampledFrom([]string{"use something newer than " + v, "use something newer than " + v, "", "x", "two lines about " + v + "\nthe second one\n", "  indented note on " + v}).Draw(t, "reason"), rapid.SampledFrom([]string{"https://example.com/d/" + v, "https://example.com/d/" + v, "", " https://example.com/padded "}).Draw(t, "link")}
			}
			rp.Versions = append(rp.Versions, rv)
		}
		w.Registry = append(w.Registry, rp)
	}
	ncalls := rapid.IntRange(1, 4).Draw(t, "ncalls")
	for i := 0; i < ncalls; i++ {
		rp := w.Registry[rapid.IntRange(0, nreg-1).Draw(t, "which")]
		if rapid.IntRange(0, 3).Draw(t, "viadeps?") == 0 {
			// a package whose root module asks for registry modules itself, several at once,
			// often the same source under different constraints
			root := world.RemotePkg{Addr: fmt.Sprintf("https://example.com/root%d.tgz", i), Content: fmt.Sprintf("root%d", i),
				Modules: []world.Module{{Sub: "", Deps: map[string][]world.Dep{}}}}
			nd := rapid.IntRange(1, 4).Draw(t, "ndeps")
			sub := rapid.SampledFrom([]string{"", "modules/a", "x"}).Draw(t, "depsub")
			for j := 0; j < nd; j++ {
				drp := rp
				if rapid.IntRange(0, 3).Draw(t, "otherreg?") == 0 {
					drp = w.Registry[rapid.IntRange(0, nreg-1).Draw(t, "depwhich")]
				}
				if rapid.IntRange(0, 2).Draw(t, "othersub?") == 0 {
					sub = rapid.SampledFrom([]string{"", "modules/a", "x"}).Draw(t, "depsub2")
				}
				addr := drp.Addr
				if sub != "" {
					addr += "//" + sub
				}
				root.Modules[0].Deps["0"] = append(root.Modules[0].Deps["0"], world.Dep{Kind: "registry", Addr: addr,
					Allowed: rapid.SampledFrom(constraintPool).Draw(t, "depallowed")})
			}
			w.Remotes = append(w.Remotes, root)
			w.Script = append(w.Script, world.AddCall{Kind: "remote", Addr: root.Addr})
			continue
		}
		c := world.AddCall{Kind: "registry", Addr: rp.Addr}
		if s := rapid.SampledFrom([]string{"", "", "modules/a", "x"}).Draw(t, "sub"); s != "" {
			c.Addr += "//" + s
		}
		if rapid.IntRange(0, 3).Draw(t, "final?") == 0 {
			c.Kind = "final"
			c.Version = rp.Versions[rapid.IntRange(0, len(rp.Versions)-1).Draw(t, "fv")].V
			if rapid.IntRange(0, 7).Draw(t, "unoffered?") == 0 {
				c.Version = "7.7.7"
			}
		} else {
			c.Allowed = rapid.SampledFrom(constraintPool).Draw(t, "allowed")
		}
		w.Script = append(w.Script, c)
	}
	return w
}

func TestPropSelect(t *testing.T) {
	ev.Check(t, subSelect, genWorld)
}

func TestReplay(t *testing.T) { ev.Replay(t) }
func TestKnown(t *testing.T)  { ev.KnownFindings(t) }
