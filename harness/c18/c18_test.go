// C18 — bundle path lookups stay inside the bundle and invert each other.
package c18

import (
	"fmt"
	"os"
	"path/filepath"
	"sort"
	"strings"
	"testing"
	"unicode/utf8"

	"github.com/apparentlymart/go-versions/versions"
	"github.com/hashicorp/go-slug/sourceaddrs"
	"github.com/hashicorp/go-slug/sourcebundle"
	"pgregory.net/rapid"

	"verif/lib/ev"
	"verif/lib/fsx"
	"verif/lib/mgen"
	"verif/lib/world"
)

func TestMain(m *testing.M) { ev.Main(m, "C18") }

var subManifest = ev.Register("manifest", checkManifest)

func openManifest(doc []byte, viaLink bool, relative ...bool) (b *sourcebundle.Bundle, root string, err error, panicked any, cleanup func()) {
	arena, cl := fsx.Scratch("c18-")
	root = filepath.Join(arena, "bundle")
	os.MkdirAll(root, 0755)
	realRoot := root
	if viaLink {
		// the bundle directory is named through a symlink ("current -> bundle"); that name is the root from here on
		os.Symlink("bundle", filepath.Join(arena, "current"))
		root = filepath.Join(arena, "current")
	}
	// decoys next to the root
	os.MkdirAll(filepath.Join(arena, "bundle-evil"), 0755)
	os.MkdirAll(filepath.Join(arena, "sibling"), 0755)
	os.WriteFile(filepath.Join(realRoot, "terraform-sources.json"), doc, 0644)
	func() {
		defer func() { panicked = recover() }()
		if len(relative) > 0 && relative[0] {
			// the directory is given by a relative name; the working directory changes afterwards
			old, _ := os.Getwd()
			os.Chdir(arena)
			defer os.Chdir(old)
			b, err = sourcebundle.OpenDir(filepath.Base(root))
			return
		}
		b, err = sourcebundle.OpenDir(root)
	}()
	return b, root, err, panicked, cl
}

func badLocal(l string) bool {
	return l == "" || l == "." || l == ".." || strings.Contains(l, "/")
}

func checkManifest(d mgen.Doc) error {
	if err := checkManifestAt(d, false); err != nil {
		return err
	}
	if err := checkManifestAt(d, true); err != nil {
		return fmt.Errorf("bundle directory named through a symlink: %v", err)
	}
	if err := checkManifestAt(d, false, true); err != nil {
		return fmt.Errorf("bundle directory opened by a relative name: %v", err)
	}
	return nil
}

func checkManifestAt(d mgen.Doc, viaLink bool, relative ...bool) error {
	doc := d.Render()
	b, root, err, panicked, cleanup := openManifest(doc, viaLink, relative...)
	defer cleanup()
	if panicked != nil {
		if ev.IsKnown("c19-opendir-version-panic") {
			ev.Excluded("c19-opendir-version-panic")
			return nil
		}
		return fmt.Errorf("OpenDir panicked: %v", panicked)
	}
	hostile := false
	for _, p := range d.Packages {
		if badLocal(p.Local) || strings.ContainsAny(p.Local, "\\ ") || strings.HasPrefix(p.Local, ".") {
			hostile = true
		}
	}
	if hostile {
		ev.NonTrivial(d, "hostile-local")
	}
	if err != nil {
		ev.Label("opendir-refused")
		// refused once, refused again: nothing about the attempt may be kept
		var b2 *sourcebundle.Bundle
		var err2 error
		func() {
			defer func() { recover() }()
			target := root
			if len(relative) > 0 && relative[0] {
				return
			}
			b2, err2 = sourcebundle.OpenDir(target)
		}()
		if err2 == nil && b2 != nil {
			return fmt.Errorf("OpenDir refused the manifest (%v) and accepted the same directory at the second attempt", err)
		}
		return nil
	}
	ev.Label("opendir-ok")
	if d.Raw == "" {
		for _, p := range d.Packages {
			if badLocal(p.Local) {
				return fmt.Errorf("OpenDir accepted a manifest naming the package directory %q", p.Local)
			}
		}
	}
	// the root as the operating system sees it: a path below either spelling lies inside the root directory
	physRoot, perr := filepath.EvalSymlinks(root)
	if perr != nil {
		physRoot = root
	}
	inside := func(what, p string) error {
		var rel string
		for _, r := range []string{root, physRoot} {
			var rerr error
			rel, rerr = filepath.Rel(r, p)
			if rerr == nil && rel != ".." && !strings.HasPrefix(rel, "../") && rel != "." && !filepath.IsAbs(rel) {
				return nil
			}
		}
		return fmt.Errorf("%s returned %q, which is not inside the bundle root %q (relative: %q)", what, p, root, rel)
	}
	subs := []string{"", "a", "modules/x", "deep/er/path"}
	for _, pa := range b.RemotePackages() {
		for _, sub := range subs {
			src := pa.SourceAddr(sub)
			p, err := b.LocalPathForRemoteSource(src)
			if err != nil {
				return fmt.Errorf("LocalPathForRemoteSource(%s) fails for a package the bundle lists: %v", src, err)
			}
			if e := inside("LocalPathForRemoteSource("+src.String()+")", p); e != nil {
				return e
			}
			if p2, err := b.LocalPathForSource(src); err != nil || p2 != p {
				return fmt.Errorf("LocalPathForSource(%s) = %q, %v; want %q", src, p2, err, p)
			}
		}
	}
	// addresses derived by the library itself from a package of the bundle and a relative path that climbs
	for _, pa := range b.RemotePackages() {
		for _, base := range []string{"", "a"} {
			for _, rel := range []string{"../x", "../../x", "../../../etc/passwd", "./a/../../../y", "../"} {
				relSrc, perr := sourceaddrs.ParseLocalSource(rel)
				if perr != nil {
					continue
				}
				derived, rerr := sourceaddrs.ResolveRelativeSource(pa.SourceAddr(base), relSrc)
				if rerr != nil {
					continue
				}
				rsrc, isRemote := derived.(sourceaddrs.RemoteSource)
				if !isRemote {
					continue
				}
				p, lerr := b.LocalPathForRemoteSource(rsrc)
				if lerr != nil {
					continue
				}
				if e := inside(fmt.Sprintf("LocalPathForSource(ResolveRelativeSource(%s, %q) = %s)", pa.SourceAddr(base), rel, derived), p); e != nil {
					return e
				}
			}
		}
	}
	for _, rp := range b.RegistryPackages() {
		for _, v := range b.RegistryPackageVersions(rp) {
			for _, sub := range subs {
				rs, perr := sourceaddrs.ParseRegistrySource(rp.String())
				if perr != nil {
					continue
				}
				if sub != "" {
					rs, _ = sourceaddrs.ParseRegistrySource(rp.String() + "//" + sub)
				}
				p, err := b.LocalPathForRegistrySource(rs, v)
				if err != nil {
					continue // the real package may not be in the bundle
				}
				if e := inside(fmt.Sprintf("LocalPathForRegistrySource(%s, %s)", rs, v), p); e != nil {
					return e
				}
				if p2, err := b.LocalPathForFinalRegistrySource(rs.Versioned(v)); err != nil || p2 != p {
					return fmt.Errorf("LocalPathForFinalRegistrySource(%s@%s) = %q, %v; want %q", rs, v, p2, err, p)
				}
			}
		}
	}
	// the inverse on this (synthetic) bundle
	return checkInverse(b, root, d)
}

func checkInverse(b *sourcebundle.Bundle, root string, label any) error {
	dirs := map[string]bool{}
	for _, pa := range b.RemotePackages() {
		p, err := b.LocalPathForRemoteSource(pa.SourceAddr(""))
		if err == nil {
			dirs[p] = true
		}
	}
	old, _ := os.Getwd()
	defer os.Chdir(old)
	os.Chdir(filepath.Dir(root))
	for dir := range dirs {
		if !utf8.ValidString(dir) {
			continue
		}
		for _, tail := range []string{"", "main.tf", "modules/a", "no/such/file.tf", "ünï/x", "with space/y z.tf", "docs/what?.md", "a#b.tf", "%41/x%2Fy.tf", "caf\xe9.tf"} {
			if !utf8.ValidString(tail) && ev.IsKnown("c18-non-utf8-file-name") {
				// known finding: a file name that is not valid UTF-8 cannot be a sub-path
				ev.Excluded("c18-non-utf8-file-name")
				continue
			}
			want := filepath.Join(dir, tail)
			relToCwd, _ := filepath.Rel(filepath.Dir(root), want)
			// ... and through the root exactly as it was given to OpenDir / ExtractArchive
			spellings := []string{want, relToCwd, filepath.Join(dir, ".", tail) + "/.", dir + "/x/../" + tail, "./" + relToCwd, filepath.Join(root, filepath.Base(dir), tail)}
			for _, sp := range spellings {
				src, err := b.SourceForLocalPath(sp)
				if err != nil {
					return fmt.Errorf("SourceForLocalPath(%q) fails for a path inside the package directory %q: %v", sp, dir, err)
				}
				back, err := b.LocalPathForSource(src)
				if err != nil {
					return fmt.Errorf("SourceForLocalPath(%q) = %s, which LocalPathForSource cannot translate back: %v", sp, src, err)
				}
				if back != filepath.Clean(want) {
					return fmt.Errorf("SourceForLocalPath(%q) = %s, which translates back to %q instead of %q", sp, src, back, filepath.Clean(want))
				}
			}
		}
	}
	// the same relative path means another file from another working directory - also for a Bundle that has
	// answered before
	var dirList []string
	for d := range dirs {
		if utf8.ValidString(d) {
			dirList = append(dirList, d)
		}
	}
	sort.Strings(dirList)
	if phys, err := filepath.EvalSymlinks(root); err != nil || phys != root {
		// a working directory has no spelling: below a root named through a symlink, relative paths are
		// made absolute through the physical directory, which the bundle does not treat as its root
		dirList = nil
	}
	for i, d := range dirList {
		if fi, err := os.Stat(d); err != nil || !fi.IsDir() {
			if os.MkdirAll(d, 0755) != nil {
				continue
			}
		}
		if os.Chdir(d) != nil {
			continue
		}
		for round := 0; round < 2; round++ {
			src, err := b.SourceForLocalPath("main.tf")
			if err != nil {
				return fmt.Errorf("SourceForLocalPath(\"main.tf\") from the working directory %q (a package directory) fails: %v", d, err)
			}
			back, err := b.LocalPathForSource(src)
			if err != nil || back != filepath.Join(d, "main.tf") {
				return fmt.Errorf("SourceForLocalPath(\"main.tf\") from the working directory %q (package directory number %d asked) = %s, which translates back to %q (%v)", d, i+1, src, back, err)
			}
		}
	}
	os.Chdir(filepath.Dir(root))
	if len(dirList) > 0 {
		if src, err := b.SourceForLocalPath("main.tf"); err == nil {
			return fmt.Errorf("SourceForLocalPath(\"main.tf\") from a working directory outside the bundle = %s", src)
		}
	}
	// paths that do not belong to any package
	outside := []string{root, root + "/", filepath.Join(root, "terraform-sources.json"), filepath.Join(root, "no-such-package-dir", "x"), filepath.Dir(root),
		filepath.Join(filepath.Dir(root), "sibling", "x"), root + "-evil/pkgA/main.tf", filepath.Join(root, "..", "bundle-evil", "pkgA"), "/", filepath.Join(root, "../.."), "."}
	for d := range dirs {
		// the root's text immediately followed by a package directory's name: a sibling, not a member
		outside = append(outside, root+filepath.Base(d), root+filepath.Base(d)+"/main.tf", root+filepath.Base(d)+"/modules/a")
		// the same name in another letter case is another directory
		for _, v := range []string{strings.ToUpper(filepath.Base(d)), strings.ToLower(filepath.Base(d)), strings.Title(filepath.Base(d))} {
			if v != filepath.Base(d) && !dirs[filepath.Join(root, v)] {
				outside = append(outside, filepath.Join(root, v), filepath.Join(root, v, "main.tf"))
			}
		}
	}
	for _, p := range outside {
		if src, err := b.SourceForLocalPath(p); err == nil {
			// a package directory may legitimately be called like one of these probes
			if lp, e2 := b.LocalPathForSource(src); e2 == nil {
				abs, _ := filepath.Abs(p)
				if lp == filepath.Clean(abs) && dirsHasPrefix(dirs, lp) {
					continue
				}
			}
			return fmt.Errorf("SourceForLocalPath(%q) = %s, but that path does not belong to any package of the bundle rooted at %q", p, src, root)
		}
	}
	return nil
}

func dirsHasPrefix(dirs map[string]bool, p string) bool {
	for d := range dirs {
		if p == d || strings.HasPrefix(p, d+string(filepath.Separator)) {
			return true
		}
	}
	return false
}

// real bundles (with aliases) from worlds
var subInverse = ev.Register("inverse", func(w world.World) error {
	exp := world.Reference(w, 2)
	if exp.Error != "" || exp.Ambiguous {
		ev.Label("not-judged")
		return nil
	}
	arena, cleanup := fsx.Scratch("c18w-")
	defer cleanup()
	os.MkdirAll(filepath.Join(arena, "bundle-evil", "pkgA"), 0755)
	os.MkdirAll(filepath.Join(arena, "sibling"), 0755)
	run, err := world.Execute(w, 2, filepath.Join(arena, "bundle"), nil)
	if err != nil {
		return fmt.Errorf("harness: %v", err)
	}
	if run.AnyErrors() {
		ev.Label("build-failed")
		return nil
	}
	run.Close()
	if run.Bundle == nil {
		return fmt.Errorf("Close failed: %v %v", run.CloseErr, run.ClosePanic)
	}
	ev.NonTrivial(w, "real-bundle")
	return checkInverse(run.Bundle, run.Target, w)
})

func TestPropManifest(t *testing.T) { ev.Check(t, subManifest, mgen.Gen) }

func TestPropInverse(t *testing.T) {
	ev.Check(t, subInverse, func(t *rapid.T) world.World {
		return world.Gen(t, world.Config{MaxRemotes: 4, MaxRegistry: 2, NFinders: 2, Clones: true, OddSubPaths: true})
	})
}

// FuzzOpenDirManifest: coverage-guided manifest bytes.
func FuzzOpenDirManifest(f *testing.F) {
	f.Add([]byte(`{"terraform_source_bundle":1,"packages":[{"source":"git::https://example.com/a.git","local":"pkgA","meta":{}}],"registry":[{"source":"ns/name/null","versions":{"1.0.0":{"source":"git::https://example.com/a.git//x","deprecation":null}}}]}`))
	f.Add([]byte(`{"terraform_source_bundle":1,"packages":[{"source":"https://example.com/b.tgz","local":".."}]}`))
	f.Fuzz(func(t *testing.T, data []byte) {
		d := mgen.Doc{Raw: string(data)}
		if len(data) == 0 {
			return
		}
		if err := subManifest.Run(d); err != nil {
			ev.FuzzFail("manifest", d, err)
			t.Fatalf("%v", err)
		}
	})
}

func TestReplay(t *testing.T) { ev.Replay(t) }
func TestKnown(t *testing.T)  { ev.KnownFindings(t) }

var _ = versions.All
