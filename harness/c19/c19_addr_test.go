package c19

import (
	"fmt"
	"strings"
	"testing"
	"unicode/utf8"

	"github.com/hashicorp/go-slug/sourceaddrs"
	"pgregory.net/rapid"

	"verif/lib/addrgen"
	"verif/lib/ev"
)

// (i) every address parser, printer and resolver on arbitrary valid-UTF-8 strings.

type AddrCase struct {
	S   string `json:"s"`
	Rel string `json:"rel"`
}

var subAddr = ev.Register("addrs", checkAddr)

func checkAddr(c AddrCase) (err error) {
	if !utf8.ValidString(c.S) || !utf8.ValidString(c.Rel) {
		ev.Label("not-utf8")
		return nil
	}
	stage := "start"
	defer func() {
		if p := recover(); p != nil {
			err = fmt.Errorf("panic in %s for input %q (relative %q): %v", stage, c.S, c.Rel, p)
		}
	}()
	reached := false
	var rel sourceaddrs.LocalSource
	haveRel := false
	stage = "ParseLocalSource(rel)"
	if r, e := sourceaddrs.ParseLocalSource(c.Rel); e == nil {
		rel, haveRel = r, true
		_ = r.String()
	}
	stage = "ParseSource"
	if v, e := sourceaddrs.ParseSource(c.S); e == nil {
		reached = true
		stage = "Source.String"
		_ = v.String()
		_ = v.SupportsVersionConstraints()
		stage = "SourceFilename"
		_ = sourceaddrs.SourceFilename(v)
		if haveRel {
			stage = "ResolveRelativeSource"
			if r, e := sourceaddrs.ResolveRelativeSource(v, rel); e == nil {
				_ = r.String()
			}
		}
	}
	stage = "ParseFinalSource"
	if v, e := sourceaddrs.ParseFinalSource(c.S); e == nil {
		reached = true
		stage = "FinalSource.String"
		_ = v.String()
		stage = "FinalSourceFilename"
		_ = sourceaddrs.FinalSourceFilename(v)
		if haveRel {
			stage = "ResolveRelativeFinalSource"
			if r, e := sourceaddrs.ResolveRelativeFinalSource(v, rel); e == nil {
				_ = r.String()
			}
		}
	}
	stage = "ParseRemoteSource"
	if v, e := sourceaddrs.ParseRemoteSource(c.S); e == nil {
		reached = true
		stage = "RemoteSource accessors"
		_ = v.String()
		_ = v.Package().String()
		pkgv := v.Package()
		_ = pkgv.URL()
		_ = v.Package().SourceType()
		if sourceaddrs.ValidSubPath(c.Rel) {
			stage = "RemotePackage.SourceAddr"
			_ = v.Package().SourceAddr(c.Rel).String()
		}
	}
	stage = "ParseRemotePackage"
	if v, e := sourceaddrs.ParseRemotePackage(c.S); e == nil {
		_ = v.String()
	}
	stage = "ParseRegistrySource"
	if v, e := sourceaddrs.ParseRegistrySource(c.S); e == nil {
		reached = true
		_ = v.String()
		_ = v.Package().String()
	}
	stage = "ParseRegistryPackage"
	if v, e := sourceaddrs.ParseRegistryPackage(c.S); e == nil {
		_ = v.String()
	}
	stage = "ParseFinalRegistrySource"
	if v, e := sourceaddrs.ParseFinalRegistrySource(c.S); e == nil {
		reached = true
		_ = v.String()
		_ = v.Unversioned().String()
		_ = v.SelectedVersion().String()
	}
	stage = "ParseLocalSource"
	if v, e := sourceaddrs.ParseLocalSource(c.S); e == nil {
		reached = true
		_ = v.String()
		_ = v.RelativePath()
	}
	stage = "ValidSubPath"
	_ = sourceaddrs.ValidSubPath(c.S)
	if reached {
		ev.NonTrivial(c, "accepted-by-some-parser")
	} else if strings.Contains(c.S, "/") {
		ev.Label("rejected-by-all")
	}
	return nil
}

var hostileAddr = []string{"x@99999999999999999999999999", "a/b/c@18446744073709551616.0.0", "a/b/c@1.99999999999999999999.0", "a/b/c@1.0.0-" + strings.Repeat("9", 40),
	"a/b/c@", "@", "@1.0.0", "a/b/c@1.0.0//", "a/b/c@v1.0.0", "::", "git::", "git::://", "://", "//", "?", "#", "%", "git::%zz", "https://[::1", "https://%41:80/",
	"github.com/", "github.com//", "github.com/a/", "gitlab.com/a/b/../c", ".", "..", "./", "../", ".//", "./..", "\x00", "a\x00b/c/d", strings.Repeat("a/", 500),
	"registry.terraform.io/a/b/c", "xn--/a/b/c", "a--b.example.com/a/b/c", "-.example.com/a/b/c", "example.com:99999999999/a/b/c", "１.example.com/a/b/c",
	// internationalised host labels of lengths no registry has: around the limits of the punycode coder and of DNS
	"é" + strings.Repeat("h", 62) + ".example.com/a/b/c", "é" + strings.Repeat("h", 300) + ".example.com/a/b/c", "퇑" + strings.Repeat("H", 1100) + "./0/0/0",
	"é" + strings.Repeat("h", 2500) + ".example.com/a/b/c", strings.Repeat("é", 700) + ".example.com/a/b/c@1.0.0", "xn--" + strings.Repeat("a", 1200) + ".example.com/a/b/c",
	"git::https://example.com/x?ref=%zz", "git::https://example.com/x?%", "https://example.com/x.tgz?archive=%", "git::ssh://", "git::https://:0/"}

func TestPropAddr(t *testing.T) {
	ev.Check(t, subAddr, func(t *rapid.T) AddrCase {
		var s string
		switch rapid.IntRange(0, 9).Draw(t, "class") {
		case 0, 1:
			s = rapid.SampledFrom(hostileAddr).Draw(t, "hostile")
		case 2:
			s = addrgen.Mutate(t, rapid.SampledFrom(hostileAddr).Draw(t, "hostile"))
		case 3:
			s = rapid.StringOfN(rapid.RuneFrom([]rune("ab/:.@?#%-_~0123456789=&+ 漢")), 0, 40, -1).Draw(t, "random")
		case 4:
			s = rapid.String().Draw(t, "anystring")
		default:
			s = addrgen.Valid(t, rapid.SampledFrom(addrgen.Kinds).Draw(t, "kind"))
			if rapid.Bool().Draw(t, "mutate") {
				s = addrgen.Mutate(t, s)
			}
		}
		rel := "./" + addrgen.GenSubPath(t, "rel", 40)
		if rapid.IntRange(0, 3).Draw(t, "relup") == 0 {
			rel = "../../" + addrgen.GenSubPath(t, "rel2", 40)
		}
		return AddrCase{S: s, Rel: rel}
	})
}

func FuzzAddr(f *testing.F) {
	for _, s := range hostileAddr {
		f.Add(s, "./a")
	}
	f.Fuzz(func(t *testing.T, s, rel string) {
		c := AddrCase{S: s, Rel: rel}
		if err := subAddr.Run(c); err != nil {
			ev.FuzzFail("addrs", c, err)
			t.Fatalf("%v", err)
		}
	})
}
