package c19

import (
	"encoding/json"
	"fmt"
	"os"
	"path/filepath"
	"testing"

	"github.com/apparentlymart/go-versions/versions"
	"github.com/hashicorp/go-slug/sourceaddrs"
	"github.com/hashicorp/go-slug/sourcebundle"
	"pgregory.net/rapid"

	"verif/lib/ev"
	"verif/lib/fsx"
	"verif/lib/mgen"
)

// (iii) OpenDir and every lookup on arbitrary manifest documents.

var subManifests = ev.Register("manifests", checkManifestNoPanic)

func checkManifestNoPanic(d mgen.Doc) (err error) {
	arena, cleanup := fsx.Scratch("c19m-")
	defer cleanup()
	root := filepath.Join(arena, "bundle")
	os.MkdirAll(root, 0755)
	doc := d.Render()
	os.WriteFile(filepath.Join(root, "terraform-sources.json"), doc, 0644)
	stage := "OpenDir"
	defer func() {
		if p := recover(); p != nil {
			err = fmt.Errorf("panic in %s on manifest %.300q: %v", stage, doc, p)
		}
	}()
	var js any
	if json.Unmarshal(doc, &js) == nil {
		ev.NonTrivial(d, "json-unmarshals")
	}
	b, oerr := sourcebundle.OpenDir(root)
	if oerr != nil {
		ev.Label("opendir-error")
		return nil
	}
	ev.Label("opendir-ok")
	stage = "accessors"
	_, _ = b.ChecksumV1()
	for _, p := range b.RemotePackages() {
		_ = b.RemotePackageMeta(p)
		for _, sub := range []string{"", "a/b"} {
			stage = "LocalPathForRemoteSource"
			_, _ = b.LocalPathForRemoteSource(p.SourceAddr(sub))
			_, _ = b.LocalPathForSource(p.SourceAddr(sub))
		}
	}
	for _, rp := range b.RegistryPackages() {
		stage = "registry accessors"
		vs := b.RegistryPackageVersions(rp)
		for _, v := range append(vs, versions.MustParseVersion("7.7.7")) {
			_, _ = b.RegistryPackageSourceAddr(rp, v)
			_ = b.RegistryPackageVersionDeprecation(rp, v)
			if rs, perr := sourceaddrs.ParseRegistrySource(rp.String() + "//x/y"); perr == nil {
				_, _ = b.LocalPathForRegistrySource(rs, v)
				_, _ = b.LocalPathForFinalRegistrySource(rs.Versioned(v))
				_, _ = b.LocalPathForSource(rs.Versioned(v))
			}
		}
	}
	stage = "SourceForLocalPath"
	for _, p := range []string{root, filepath.Join(root, "pkgA", "x"), filepath.Join(root, "..", "y"), "/", "", ".", filepath.Join(root, "pkgA"), filepath.Join(root, "a\\b", "z"), "relative/path"} {
		_, _ = b.SourceForLocalPath(p)
	}
	stage = "LocalPathForSource(local)"
	if l, lerr := sourceaddrs.ParseLocalSource("./x"); lerr == nil {
		_, _ = b.LocalPathForSource(l)
	}
	return nil
}

func TestPropManifests(t *testing.T) { ev.Check(t, subManifests, mgen.Gen) }

func FuzzManifest(f *testing.F) {
	f.Add([]byte(`{"terraform_source_bundle":1,"packages":[{"source":"git::https://example.com/a.git","local":"pkgA","meta":{}}],"registry":[{"source":"ns/name/null","versions":{"1.0.0":{"source":"git::https://example.com/a.git//x","deprecation":null}}}]}`))
	f.Add([]byte(`{"terraform_source_bundle":1,"registry":[{"source":"ns/name/null","versions":{"99999999999999999999.0.0":{"source":"x"}}}]}`))
	f.Fuzz(func(t *testing.T, data []byte) {
		if len(data) == 0 {
			return
		}
		d := mgen.Doc{Raw: string(data)}
		if err := subManifests.Run(d); err != nil {
			ev.FuzzFail("manifests", d, err)
			t.Fatalf("%v", err)
		}
	})
}

var _ = rapid.Bool
