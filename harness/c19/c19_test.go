// C19 — no entry point panics, crashes or hangs on any input.
// (ii) Unpack on structured-hostile and byte-mutated archives (in-process),
// (iv) Pack / bundle builds on trees with link cycles, links to special files
// and degenerate rule files, in a watched worker subprocess.
// (i) address parsers and (iii) manifests: c19_addr_test.go / c19_manifest_test.go.
package c19

import (
	"archive/tar"
	"bytes"
	"compress/gzip"
	"context"
	"encoding/json"
	"fmt"
	iofs "io/fs"
	"net/url"
	"os"
	"path/filepath"
	"runtime/debug"
	"strings"
	"testing"
	"time"

	slug "github.com/hashicorp/go-slug"
	"github.com/hashicorp/go-slug/sourceaddrs"
	"github.com/hashicorp/go-slug/sourcebundle"
	"pgregory.net/rapid"

	"verif/lib/ev"
	"verif/lib/fsx"
	"verif/lib/pk"
	"verif/lib/tarx"
	"verif/lib/tgen"
	"verif/lib/ugen"
	"verif/lib/watch"
)

func TestMain(m *testing.M) { ev.Main(m, "C19") }

// ---------------------------------------------------------------------------
// (iv) Pack / bundle on hazardous trees, watched

type TreeCase struct {
	Tree    fsx.Tree `json:"tree"`
	Outside fsx.Tree `json:"outside,omitempty"` // relative to the arena root R (source is R/src)
	Rules   *string  `json:"rules,omitempty"`
	Opts    pk.Opts  `json:"opts"`
	Mode    string   `json:"mode"` // pack | bundle | opendir (the tree is a bundle directory to be opened) | unpackinto
	// unpackinto: Tree is what the destination already holds; the archives are unpacked into it one after the other
	Archives [][]tarx.Entry `json:"archives,omitempty"`
}

type treeFetcher struct {
	tree fsx.Tree
	vars map[string]string
}

func (f treeFetcher) FetchSourcePackage(ctx context.Context, st string, u *url.URL, dir string) (sourcebundle.FetchSourcePackageResponse, error) {
	return sourcebundle.FetchSourcePackageResponse{}, fsx.Materialise(dir, f.tree, f.vars)
}

type noDeps struct{}

func (noDeps) FindDependencies(fsys iofs.FS, subPath string, deps *sourcebundle.Dependencies) sourcebundle.Diagnostics {
	return nil
}

// runTreeCase executes inside the worker.
func runTreeCase(raw []byte) watch.Outcome {
	var c TreeCase
	if err := json.Unmarshal(raw, &c); err != nil {
		return watch.Outcome{OK: true, Note: "harness: bad case: " + err.Error()}
	}
	r, cleanup := fsx.Scratch("c19w-")
	defer cleanup()
	vars := map[string]string{"R": r}
	tr := c.Tree
	ownRuleFile := false
	for _, n := range tr {
		if n.Path == ".terraformignore" {
			ownRuleFile = true
		}
	}
	if c.Rules != nil && !ownRuleFile {
		tr = append(fsx.Tree{{Path: ".terraformignore", Kind: "file", Content: *c.Rules, Mode: 0644}}, tr...)
	}
	if err := fsx.Materialise(r, c.Outside, vars); err != nil {
		return watch.Outcome{OK: true, Note: "harness: outside: " + err.Error()}
	}
	if c.Mode == "unpackinto" {
		dst := filepath.Join(r, "dst")
		if err := fsx.Materialise(dst, c.Tree, vars); err != nil {
			return watch.Outcome{OK: true, Note: "harness: tree: " + err.Error()}
		}
		var last string
		for _, a := range c.Archives {
			data, err := tarx.Build(a, vars)
			if err != nil {
				return watch.Outcome{OK: true, Note: "harness: archive: " + err.Error()}
			}
			if err := slug.Unpack(bytes.NewReader(data), dst); err != nil {
				last = err.Error()
			}
		}
		return watch.Outcome{OK: true, Err: last}
	}
	if c.Mode == "opendir" {
		dir := filepath.Join(r, "src")
		if err := fsx.Materialise(dir, c.Tree, vars); err != nil {
			return watch.Outcome{OK: true, Note: "harness: tree: " + err.Error()}
		}
		if _, err := sourcebundle.OpenDir(dir); err != nil {
			return watch.Outcome{OK: true, Err: err.Error()}
		}
		return watch.Outcome{OK: true}
	}
	// go-slug reports unreadable rule files on stderr; keep the worker's stderr for diagnostics only
	if c.Mode == "bundle" {
		target := filepath.Join(r, "bundle")
		os.Mkdir(target, 0755)
		b, err := sourcebundle.NewBuilder(target, treeFetcher{tr, vars}, nil)
		if err != nil {
			return watch.Outcome{OK: true, Err: err.Error()}
		}
		diags := b.AddRemoteSource(context.Background(), sourceaddrs.MustParseSource("https://example.com/p.tgz").(sourceaddrs.RemoteSource), noDeps{})
		if diags.HasErrors() {
			return watch.Outcome{OK: true, Err: "diagnostics with errors"}
		}
		if _, err := b.Close(); err != nil {
			return watch.Outcome{OK: true, Err: err.Error()}
		}
		return watch.Outcome{OK: true}
	}
	src := filepath.Join(r, "src")
	if err := fsx.Materialise(src, tr, vars); err != nil {
		return watch.Outcome{OK: true, Note: "harness: tree: " + err.Error()}
	}
	p, err := c.Opts.Packer(vars)
	if err != nil {
		return watch.Outcome{OK: true, Note: "harness: packer"}
	}
	var buf bytes.Buffer
	_, err = p.Pack(src, &buf)
	if err != nil {
		return watch.Outcome{OK: true, Err: err.Error()}
	}
	return watch.Outcome{OK: true}
}

func TestWorker(t *testing.T) {
	switch os.Getenv("VERIF_WORKER") {
	case "":
		t.Skip("not a worker")
	case "tree":
		// runaway recursion ends in a crash after 64 MiB of stack instead of after the default gigabyte
		debug.SetMaxStack(64 << 20)
		devnull, _ := os.OpenFile(os.DevNull, os.O_WRONLY, 0)
		_ = devnull
		watch.Serve(runTreeCase)
	}
}

var pool = watch.NewPool("tree", 12*time.Second)

var subTree = ev.Register("packtree", checkTree).
	Classifier("c19-deref-link-cycle", func(c TreeCase) bool { return c.Opts.Deref && hasHazard(c, "cycle") }).
	Classifier("c19-deref-link-to-fifo", func(c TreeCase) bool { return c.Opts.Deref && hasHazard(c, "fifo") })

func hasHazard(c TreeCase, kind string) bool {
	for _, n := range append(append(fsx.Tree{}, c.Tree...), c.Outside...) {
		switch kind {
		case "fifo":
			if n.Kind == "fifo" {
				return true
			}
		case "cycle":
			if n.Kind == "symlink" && strings.Contains(n.Path, "cyc") {
				return true
			}
		}
	}
	return false
}

func checkTree(c TreeCase) error {
	if c.Opts.Deref && c.Mode == "pack" {
		if hasHazard(c, "cycle") && ev.IsKnown("c19-deref-link-cycle") {
			ev.Excluded("c19-deref-link-cycle")
			return nil
		}
		if hasHazard(c, "fifo") && ev.IsKnown("c19-deref-link-to-fifo") {
			ev.Excluded("c19-deref-link-to-fifo")
			return nil
		}
	}
	v, err := pool.Do(c)
	if err != nil {
		ev.Infra("worker: %v", err)
		return nil
	}
	if hasHazard(c, "cycle") || hasHazard(c, "fifo") || c.Rules != nil || c.Mode == "opendir" || c.Mode == "unpackinto" {
		ev.NonTrivial(c, "hazard:"+c.Mode)
	}
	switch {
	case v.Panic != "":
		return fmt.Errorf("%s panicked: %s", c.Mode, v.Panic)
	case v.Crashed:
		if strings.Contains(v.Diagnosis, "github.com/hashicorp/go-slug") {
			return fmt.Errorf("%s crashed the process: %s", c.Mode, v.Diagnosis)
		}
		ev.Infra("worker died without go-slug frames: %s", v.Diagnosis)
		return nil
	case v.Hung:
		return fmt.Errorf("%s did not return within the limit; blocked go-slug goroutine:\n%s", c.Mode, v.Diagnosis)
	case v.Inconcl:
		ev.Infra("worker silent, dump does not implicate go-slug: %s", v.Diagnosis)
		return nil
	}
	if v.Note != "" {
		ev.Label("harness-note")
	}
	ev.LabelIf(v.Err != "", "returned-error")
	ev.LabelIf(v.Err == "" && v.Note == "", "returned-ok")
	return nil
}

var degenerateLines = []string{"", "   ", "\t", "!", "! ", " !", "/", "#", "**", "!/", "//", "***", "[", "[a-", "\\", "a\\", "!!x", "!#", " # ", "/ ", "*/", "?/",
	"\xff\xfe", "a\x00b", strings.Repeat("x", 5000), strings.Repeat("*/", 200), "!" + strings.Repeat("a/", 300), "[z-a]", "a[", "{", "(", ")", "+", "?", "\r", " \r", "!\r"}

func genRules(t *rapid.T) *string {
	if rapid.IntRange(0, 3).Draw(t, "rules?") == 0 {
		return nil
	}
	lines := rapid.SliceOfN(rapid.OneOf(rapid.SampledFrom(degenerateLines), rapid.SampledFrom([]string{"*.txt", "foo/", "!bar", "/a/b"}),
		rapid.StringOfN(rapid.RuneFrom([]rune("!/#*?[]\\ \ta.{}()+|^$-")), 0, 12, -1)), 0, 6).Draw(t, "lines")
	s := strings.Join(lines, rapid.SampledFrom([]string{"\n", "\r\n"}).Draw(t, "eol"))
	if rapid.Bool().Draw(t, "finaleol") {
		s += "\n"
	}
	return &s
}

type hazard struct {
	name    string
	tree    fsx.Tree
	outside fsx.Tree
}

var hazards = []hazard{
	{"in-tree-self-loop", fsx.Tree{{Path: "cycself", Kind: "symlink", Target: "cycself"}}, nil},
	{"in-tree-2-cycle", fsx.Tree{{Path: "cyca", Kind: "symlink", Target: "cycb"}, {Path: "cycb", Kind: "symlink", Target: "cyca"}}, nil},
	{"in-tree-dir-loop", fsx.Tree{{Path: "d/cycup", Kind: "symlink", Target: ".."}, {Path: "d/cycdot", Kind: "symlink", Target: "."}}, nil},
	// links whose target runs through the link itself (or through each other) with something behind it
	{"in-tree-self-through", fsx.Tree{{Path: "cycagain", Kind: "symlink", Target: "cycagain/more"}, {Path: "sub/cycagain2", Kind: "symlink", Target: "../sub/cycagain2/more"}}, nil},
	{"in-tree-pair-through", fsx.Tree{{Path: "cycone", Kind: "symlink", Target: "cyctwo/x"}, {Path: "cyctwo", Kind: "symlink", Target: "cycone/y"}, {Path: "cycthree", Kind: "symlink", Target: "./cycthree/../cycthree/z"}}, nil},
	{"ext-self-loop", fsx.Tree{{Path: "l1", Kind: "symlink", Target: "../ext/cycloop"}}, fsx.Tree{{Path: "ext/cycloop", Kind: "symlink", Target: "cycloop"}}},
	{"ext-2-cycle", fsx.Tree{{Path: "sub/l2", Kind: "symlink", Target: "../../ext/cyc1"}}, fsx.Tree{{Path: "ext/cyc1", Kind: "symlink", Target: "cyc2"}, {Path: "ext/cyc2", Kind: "symlink", Target: "cyc1"}}},
	{"ext-dir-cycle-dot", fsx.Tree{{Path: "l3", Kind: "symlink", Target: "../ext/cycdir"}}, fsx.Tree{{Path: "ext/cycdir/f", Kind: "file", Content: "OUT:f"}, {Path: "ext/cycdir/cycself", Kind: "symlink", Target: "."}}},
	{"ext-dir-cycle-parent", fsx.Tree{{Path: "l4", Kind: "symlink", Target: "{R}/ext/cycdir2/sub"}}, fsx.Tree{{Path: "ext/cycdir2/sub/cycup", Kind: "symlink", Target: ".."}, {Path: "ext/cycdir2/sub/cycagain", Kind: "symlink", Target: "../sub"}}},
	{"ext-dir-back-to-root", fsx.Tree{{Path: "l5", Kind: "symlink", Target: "../ext/cycback"}}, fsx.Tree{{Path: "ext/cycback/cycroot", Kind: "symlink", Target: "../../src"}, {Path: "ext/cycback/cycabs", Kind: "symlink", Target: "{R}/src"}}},
	{"link-to-ext-fifo", fsx.Tree{{Path: "lf", Kind: "symlink", Target: "../ext/pipe"}}, fsx.Tree{{Path: "ext/pipe", Kind: "fifo"}}},
	{"link-to-in-tree-fifo", fsx.Tree{{Path: "pipe", Kind: "fifo"}, {Path: "lf2", Kind: "symlink", Target: "pipe"}}, nil},
	{"ext-dir-with-fifo", fsx.Tree{{Path: "ld", Kind: "symlink", Target: "../ext/dwf"}}, fsx.Tree{{Path: "ext/dwf/pipe", Kind: "fifo"}, {Path: "ext/dwf/ok", Kind: "file", Content: "OUT:ok"}}},
	{"link-to-ext-socket", fsx.Tree{{Path: "ls", Kind: "symlink", Target: "../ext/sock"}}, fsx.Tree{{Path: "ext/sock", Kind: "socket"}}},
	{"link-to-dev-null", fsx.Tree{{Path: "ldn", Kind: "symlink", Target: "/dev/null"}, {Path: "ldz", Kind: "symlink", Target: "/dev/zero"}}, nil},
	{"link-to-dev-dir", fsx.Tree{{Path: "lproc", Kind: "symlink", Target: "/proc/self/fd"}}, nil},
	{"long-chain", fsx.Tree{{Path: "c0", Kind: "symlink", Target: "../ext/ch0"}}, chainTree(60)},
	// a directory that can be listed but not searched (matters without privileges), and one that cannot be listed
	{"dir-read-no-search", fsx.Tree{{Path: "ns", Kind: "dir", Mode: 0444}, {Path: "ns/f", Kind: "file", Content: "IN:f", Mode: 0644}}, nil},
	{"dir-no-read", fsx.Tree{{Path: "nr", Kind: "dir", Mode: 0311}, {Path: "nr/f", Kind: "file", Content: "IN:f", Mode: 0644}}, nil},
	{"file-no-read", fsx.Tree{{Path: "secret", Kind: "file", Content: "IN:s", Mode: 0000}}, nil},
	// the rule file itself is not a regular file
	{"rulefile-fifo", fsx.Tree{{Path: ".terraformignore", Kind: "fifo"}}, nil},
	{"rulefile-link-to-fifo", fsx.Tree{{Path: ".terraformignore", Kind: "symlink", Target: "../ext/rpipe"}}, fsx.Tree{{Path: "ext/rpipe", Kind: "fifo"}}},
	{"rulefile-link-to-dev-zero", fsx.Tree{{Path: ".terraformignore", Kind: "symlink", Target: "/dev/zero"}}, nil},
	{"rulefile-dir", fsx.Tree{{Path: ".terraformignore", Kind: "dir", Mode: 0755}}, nil},
	{"rulefile-link-to-dir", fsx.Tree{{Path: ".terraformignore", Kind: "symlink", Target: "."}}, nil},
}

func chainTree(n int) fsx.Tree {
	var out fsx.Tree
	for i := 0; i < n; i++ {
		out = append(out, fsx.Node{Path: fmt.Sprintf("ext/ch%d", i), Kind: "symlink", Target: fmt.Sprintf("ch%d", i+1)})
	}
	out = append(out, fsx.Node{Path: fmt.Sprintf("ext/ch%d", n), Kind: "file", Content: "OUT:end"})
	return out
}

func TestPropTree(t *testing.T) {
	defer pool.Close()
	ev.Check(t, subTree, func(t *rapid.T) TreeCase {
		c := TreeCase{Mode: rapid.SampledFrom([]string{"pack", "pack", "pack", "bundle"}).Draw(t, "mode")}
		c.Tree = tgen.Gen(t, tgen.Config{MaxNodes: 8, Links: true, Special: true, Awkward: true, IgnoreNames: true})
		hs := rapid.SliceOfNDistinct(rapid.IntRange(0, len(hazards)-1), 0, 3, func(i int) int { return i }).Draw(t, "hazards")
		have := map[string]bool{}
		for _, n := range c.Tree {
			have[n.Path] = true
		}
		for _, hi := range hs {
			for _, n := range hazards[hi].tree {
				if !have[n.Path] {
					c.Tree = append(c.Tree, n)
					have[n.Path] = true
				}
			}
			c.Outside = append(c.Outside, hazards[hi].outside...)
		}
		c.Rules = genRules(t)
		c.Opts.Deref = rapid.Bool().Draw(t, "deref")
		c.Opts.Ignore = rapid.IntRange(0, 3).Draw(t, "ignore") > 0
		if rapid.IntRange(0, 9).Draw(t, "unpackinto?") == 0 {
			// a destination that is used again: special files under names the next archive has, directories the
			// earlier archive recorded as read-only
			c.Mode, c.Rules, c.Outside = "unpackinto", nil, nil
			c.Tree = nil
			if rapid.Bool().Draw(t, "prefifo") {
				c.Tree = fsx.Tree{{Path: "a", Kind: "fifo"}, {Path: "conf/pipe", Kind: "fifo"}}
			}
			big := strings.Repeat("0123456789abcdef", 8192) // 128 KiB: more than a pipe takes
			roMode := rapid.SampledFrom([]int64{0555, 0500, 0755}).Draw(t, "romode")
			first := []tarx.Entry{{Name: "conf/", Type: "dir", Mode: roMode, Sec: 1500000000}, {Name: "conf/a.txt", Type: "file", Mode: 0444, Body: "x", Sec: 1500000000},
				{Name: "a", Type: "file", Mode: 0644, Body: big, Sec: 1500000000}}
			second := []tarx.Entry{{Name: "conf/b.txt", Type: "file", Mode: 0644, Body: "y", Sec: 1500000001}, {Name: "conf/a.txt", Type: "file", Mode: 0644, Body: "z", Sec: 1500000001},
				{Name: "conf/pipe", Type: "file", Mode: 0644, Body: big, Sec: 1500000001}}
			c.Archives = [][]tarx.Entry{first, second}
			if rapid.Bool().Draw(t, "swap") {
				c.Archives = [][]tarx.Entry{second, first}
			}
			return c
		}
		if rapid.IntRange(0, 9).Draw(t, "opendir?") == 0 {
			// a directory offered as a bundle whose manifest is not a regular file
			c.Mode, c.Rules = "opendir", nil
			mh := manifestHazards[rapid.IntRange(0, len(manifestHazards)-1).Draw(t, "manifesthazard")]
			c.Tree = append(append(fsx.Tree{}, mh.tree...), fsx.Node{Path: "pkgdir/main.tf", Kind: "file", Content: "x", Mode: 0644})
			c.Outside = mh.outside
		}
		return c
	})
}

var manifestHazards = []hazard{
	{"manifest-fifo", fsx.Tree{{Path: "terraform-sources.json", Kind: "fifo"}}, nil},
	{"manifest-link-to-fifo", fsx.Tree{{Path: "terraform-sources.json", Kind: "symlink", Target: "../ext/mpipe"}}, fsx.Tree{{Path: "ext/mpipe", Kind: "fifo"}}},
	{"manifest-link-to-dev-zero", fsx.Tree{{Path: "terraform-sources.json", Kind: "symlink", Target: "/dev/zero"}}, nil},
	{"manifest-dir", fsx.Tree{{Path: "terraform-sources.json", Kind: "dir", Mode: 0755}}, nil},
	{"manifest-self-link", fsx.Tree{{Path: "terraform-sources.json", Kind: "symlink", Target: "terraform-sources.json"}}, nil},
	{"manifest-dangling-link", fsx.Tree{{Path: "terraform-sources.json", Kind: "symlink", Target: "nowhere"}}, nil},
	{"manifest-unreadable", fsx.Tree{{Path: "terraform-sources.json", Kind: "file", Content: "{}", Mode: 0000}}, nil},
}

// ---------------------------------------------------------------------------
// (ii) Unpack on arbitrary bytes

type ByteMut struct {
	Pm  int  `json:"pm"` // position in per-mille of the tar stream
	Xor byte `json:"xor"`
}

type BytesCase struct {
	Entries  []tarx.Entry `json:"entries"`
	Muts     []ByteMut    `json:"muts,omitempty"`
	Truncate int          `json:"truncate"` // per-mille kept (1000 = all)
	Garbage  string       `json:"garbage,omitempty"`
	NoGzip   bool         `json:"no_gzip,omitempty"`
}

func repairChecksums(b []byte) {
	for off := 0; off+512 <= len(b); off += 512 {
		h := b[off : off+512]
		if string(h[257:262]) != "ustar" {
			continue
		}
		for i := 148; i < 156; i++ {
			h[i] = ' '
		}
		var sum int64
		for _, c := range h {
			sum += int64(c)
		}
		copy(h[148:156], fmt.Sprintf("%06o\x00 ", sum))
	}
}

func (c BytesCase) stream() ([]byte, bool) {
	t, err := tarx.BuildTar(c.Entries, map[string]string{"R": "/nonexistent-arena", "DST": "/nonexistent-arena/dst"})
	if err != nil {
		return nil, false
	}
	for _, m := range c.Muts {
		if len(t) == 0 {
			break
		}
		t[(len(t)-1)*m.Pm/1000] ^= m.Xor
	}
	repairChecksums(t)
	t = append(t, c.Garbage...)
	var data []byte
	if c.NoGzip {
		data = t
	} else {
		data = tarx.Gzip(t)
	}
	if c.Truncate < 1000 {
		data = data[:len(data)*c.Truncate/1000]
	}
	return data, true
}

var subBytes = ev.Register("unpackbytes", checkBytes)

func reachesTar(data []byte) bool {
	zr, err := gzip.NewReader(bytes.NewReader(data))
	if err != nil {
		return false
	}
	_, err = tar.NewReader(zr).Next()
	return err == nil
}

func checkBytes(c BytesCase) error {
	data, ok := c.stream()
	if !ok {
		ev.Label("archive-not-buildable")
		return nil
	}
	return unpackNoPanic(c, data)
}

func unpackNoPanic(c any, data []byte) error {
	r, cleanup := fsx.Scratch("c19u-")
	defer cleanup()
	dst := filepath.Join(r, "dst")
	os.Mkdir(dst, 0755)
	if reachesTar(data) {
		ev.NonTrivial(c, "reaches-tar-entries")
	} else {
		ev.Label("rejected-by-framing")
	}
	done := make(chan error, 1)
	var panicked any
	go func() {
		defer func() {
			if p := recover(); p != nil {
				panicked = p
				done <- nil
			}
		}()
		done <- slug.Unpack(bytes.NewReader(data), dst)
	}()
	select {
	case <-done:
	case <-time.After(60 * time.Second):
		return fmt.Errorf("Unpack did not return within 60s on %d bytes of input", len(data))
	}
	if panicked != nil {
		return fmt.Errorf("Unpack panicked: %v", panicked)
	}
	return nil
}

func TestPropUnpackBytes(t *testing.T) {
	ev.Check(t, subBytes, func(t *rapid.T) BytesCase {
		base := ugen.GenCase(t, 30, 20, false, false)
		c := BytesCase{Entries: base.Entries, Truncate: 1000}
		// degenerate names
		if rapid.IntRange(0, 4).Draw(t, "degenerate") == 0 {
			e := tarx.Entry{Type: rapid.SampledFrom([]string{"file", "dir", "symlink"}).Draw(t, "dtype"), Mode: 0644, Raw: true,
				Name: rapid.SampledFrom([]string{"", "/", "//", ".", "./", "a\x00b", "\x00", "/\x00", strings.Repeat("/", 50), strings.Repeat("a/", 40)}).Draw(t, "dname"),
				Link: rapid.SampledFrom([]string{"", "/", ".", "\x00", "a\x00"}).Draw(t, "dlink")}
			big := int64(1) << 40
			if rapid.Bool().Draw(t, "hugesize") {
				e.Size = &big
			}
			c.Entries = append(c.Entries, e)
		}
		c.Muts = rapid.SliceOfN(rapid.Custom(func(t *rapid.T) ByteMut {
			return ByteMut{Pm: rapid.IntRange(0, 1000).Draw(t, "pm"), Xor: byte(rapid.IntRange(1, 255).Draw(t, "xor"))}
		}), 0, 4).Draw(t, "muts")
		if rapid.IntRange(0, 3).Draw(t, "trunc?") == 0 {
			c.Truncate = rapid.IntRange(0, 999).Draw(t, "trunc")
		}
		if rapid.IntRange(0, 5).Draw(t, "garbage?") == 0 {
			c.Garbage = rapid.SampledFrom([]string{"garbage", strings.Repeat("\x00", 700), strings.Repeat("\xff", 1024)}).Draw(t, "garbage")
		}
		c.NoGzip = rapid.IntRange(0, 15).Draw(t, "nogzip") == 0
		return c
	})
}

type RawCase struct {
	Data []byte `json:"data"`
}

var subRaw = ev.Register("unpackraw", func(c RawCase) error { return unpackNoPanic("raw", c.Data) })

// FuzzUnpackBytes: coverage-guided raw bytes (as given and gzip-wrapped).
func FuzzUnpackBytes(f *testing.F) {
	for _, es := range [][]tarx.Entry{
		{{Name: "a", Type: "file", Mode: 0644, Body: "x"}},
		{{Name: "d/", Type: "dir", Mode: 0755}, {Name: "d/l", Type: "symlink", Link: "../a"}, {Name: "../x", Type: "file", Body: "y"}},
		{{Name: "", Type: "file", Raw: true}, {Name: "/", Type: "dir", Raw: true}},
	} {
		t, _ := tarx.BuildTar(es, nil)
		f.Add(t)
		f.Add(tarx.Gzip(t))
	}
	f.Fuzz(func(t *testing.T, data []byte) {
		for _, d := range [][]byte{data, tarx.Gzip(data)} {
			c := RawCase{Data: d}
			if err := subRaw.Run(c); err != nil {
				ev.FuzzFail("unpackraw", c, err)
				t.Fatalf("%v", err)
			}
		}
	})
}

func TestReplay(t *testing.T) { defer pool.Close(); ev.Replay(t) }
func TestKnown(t *testing.T)  { defer pool.Close(); ev.KnownFindings(t) }
