// C20 — the metadata Pack returns describes the slug it wrote.
package c20

import (
	"archive/tar"
	"bytes"
	"fmt"
	"os"
	"path/filepath"
	"testing"
	"time"

	slug "github.com/hashicorp/go-slug"
	"pgregory.net/rapid"

	"verif/lib/ev"
	"verif/lib/fsx"
	"verif/lib/packcase"
	"verif/lib/pk"
	"verif/lib/tarx"
	"verif/lib/tgen"
)

func TestMain(m *testing.M) { ev.Main(m, "C20") }

var subMeta = ev.Register("meta", checkMeta)

func checkMeta(c packcase.Case) error {
	run, err := packcase.Execute(c)
	if err != nil {
		return fmt.Errorf("harness: %v", err)
	}
	defer run.Cleanup()
	if run.Panic != nil {
		return fmt.Errorf("Pack panicked: %v", run.Panic)
	}
	if run.Err != nil {
		ev.Label("pack-error")
		return nil
	}
	if run.DecErr != nil {
		return fmt.Errorf("produced slug does not decode: %v", run.DecErr)
	}
	f := tgen.Describe(c.Tree)
	derefd := false
	for _, l := range run.Links(c) {
		if l.Outside && c.Opts.Deref && !l.Allowed {
			derefd = true
		}
	}
	switch {
	case derefd:
		ev.NonTrivial(c, "dereferenced-link")
	case c.Opts.Ignore:
		ev.NonTrivial(c, "ignore-processing")
	case f.EmptyFile:
		ev.NonTrivial(c, "empty-file")
	case len(c.Tree) == 0:
		ev.NonTrivial(c, "empty-tree")
	case f.Link:
		ev.NonTrivial(c, "links")
	}
	if run.Meta == nil {
		return fmt.Errorf("Pack returned nil error and nil Meta")
	}
	if len(run.Meta.Files) != len(run.Entries) {
		return fmt.Errorf("Meta.Files has %d names, the slug has %d entries (%v vs %v)", len(run.Meta.Files), len(run.Entries), run.Meta.Files, names(run))
	}
	var hdrSum, bodySum int64
	for i, e := range run.Entries {
		if run.Meta.Files[i] != e.Name {
			return fmt.Errorf("Meta.Files[%d] = %q but entry %d of the slug is %q (order or name differs)", i, run.Meta.Files[i], i, e.Name)
		}
		if e.Typeflag == tar.TypeReg {
			hdrSum += e.Size
			bodySum += e.BodyLen
		} else if e.BodyLen != 0 {
			return fmt.Errorf("non-regular entry %q carries %d content bytes", e.Name, e.BodyLen)
		} else if e.Size != 0 {
			return fmt.Errorf("non-regular entry %q (type %c) records the size %d in its header although nothing is stored for it: the header sizes add up to more than Meta.Size", e.Name, e.Typeflag, e.Size)
		}
	}
	if run.Meta.Size != bodySum || run.Meta.Size != hdrSum {
		return fmt.Errorf("Meta.Size = %d, content bytes stored = %d, sum of header sizes = %d", run.Meta.Size, bodySum, hdrSum)
	}
	return nil
}

// ---------------------------------------------------------------------------
// A file of the tree shrinks while Pack is copying it (the writer handed to
// Pack truncates it once output starts to arrive). Pack may fail; if it
// succeeds, the Meta still has to describe the slug that was written.

type ShrinkCase struct {
	BigKiB int  `json:"big_kib"` // size of the file that shrinks
	KeepB  int  `json:"keep_b"`  // bytes it keeps
	AfterB int  `json:"after_b"` // output bytes after which the truncation happens
	Before bool `json:"before"`  // a small file sorts before the big one
	AfterF bool `json:"after_f"` // a small file sorts after it
	Grow   bool `json:"grow"`    // the file grows instead (appended to)
}

type shrinkWriter struct {
	buf   bytes.Buffer
	after int
	fire  func()
	done  bool
}

func (w *shrinkWriter) Write(p []byte) (int, error) {
	w.buf.Write(p)
	if !w.done && w.buf.Len() >= w.after {
		w.done = true
		w.fire()
	}
	return len(p), nil
}

var subShrink = ev.Register("shrinking", func(c ShrinkCase) error {
	r, cleanup := fsx.Scratch("c20s-")
	defer cleanup()
	src := filepath.Join(r, "src")
	os.MkdirAll(src, 0755)
	// incompressible content, so that compressed output arrives while the file is being read
	content := make([]byte, c.BigKiB*1024)
	x := uint32(2463534242)
	for i := range content {
		x ^= x << 13
		x ^= x >> 17
		x ^= x << 5
		content[i] = byte(x)
	}
	big := filepath.Join(src, "m-big.bin")
	os.WriteFile(big, content, 0644)
	if c.Before {
		os.WriteFile(filepath.Join(src, "a-small.txt"), []byte("IN:before"), 0644)
	}
	if c.AfterF {
		os.WriteFile(filepath.Join(src, "z-small.txt"), []byte("IN:after"), 0644)
	}
	w := &shrinkWriter{after: c.AfterB, fire: func() {
		if c.Grow {
			f, err := os.OpenFile(big, os.O_APPEND|os.O_WRONLY, 0)
			if err == nil {
				f.Write(content[:4096])
				f.Close()
			}
			return
		}
		os.Truncate(big, int64(c.KeepB))
	}}
	meta, perr, panicked := func() (m *slug.Meta, err error, pan any) {
		defer func() { pan = recover() }()
		m, err = slug.Pack(src, w, false)
		return
	}()
	if panicked != nil {
		return fmt.Errorf("Pack panicked: %v", panicked)
	}
	ev.NonTrivial(c, "file-changes-during-pack")
	if perr != nil {
		ev.Label("pack-error")
		return nil
	}
	ev.Label("pack-ok")
	entries, derr := tarx.Decode(w.buf.Bytes())
	if derr != nil {
		return fmt.Errorf("Pack returned nil but the slug does not decode: %v", derr)
	}
	if meta == nil || len(meta.Files) != len(entries) {
		return fmt.Errorf("Meta.Files vs slug entries: %v vs %d entries", meta, len(entries))
	}
	var hdrSum, bodySum int64
	for i, e := range entries {
		if meta.Files[i] != e.Name {
			return fmt.Errorf("Meta.Files[%d] = %q but entry %d of the slug is %q", i, meta.Files[i], i, e.Name)
		}
		if e.Typeflag == tar.TypeReg {
			hdrSum += e.Size
			bodySum += e.BodyLen
		}
	}
	if meta.Size != bodySum || meta.Size != hdrSum {
		return fmt.Errorf("a file changed size while being packed and Pack returned nil: Meta.Size = %d, content bytes stored = %d, sum of header sizes = %d", meta.Size, bodySum, hdrSum)
	}
	return nil
})

func TestPropShrink(t *testing.T) {
	ev.Check(t, subShrink, func(t *rapid.T) ShrinkCase {
		return ShrinkCase{BigKiB: rapid.SampledFrom([]int{40, 100, 300}).Draw(t, "big"), KeepB: rapid.SampledFrom([]int{0, 10, 5000, 33000}).Draw(t, "keep"),
			AfterB: rapid.SampledFrom([]int{1, 11, 20000, 60000}).Draw(t, "after"), Before: rapid.Bool().Draw(t, "before"), AfterF: rapid.Bool().Draw(t, "afterf"),
			Grow: rapid.IntRange(0, 4).Draw(t, "grow") == 0}
	})
}

// ---------------------------------------------------------------------------
// One Packer value used for several Packs: after a Pack that failed half-way,
// and for two Packs that overlap in time. The Meta of each call describes the
// slug of that call and nothing else.

type ReuseCase struct {
	Tree    fsx.Tree `json:"tree"`
	Other   fsx.Tree `json:"other"`
	Ignore  bool     `json:"ignore"`
	Overlap bool     `json:"overlap"` // the two Packs overlap (else: a failing Pack, then this one)
	// two (or three) successful Packs one after the other; every Meta is looked at again once all are done
	Twice bool `json:"twice,omitempty"`
}

func metaMatches(what string, meta *slug.Meta, data []byte) error {
	entries, err := tarx.Decode(data)
	if err != nil {
		return fmt.Errorf("%s: slug does not decode: %v", what, err)
	}
	if meta == nil {
		return fmt.Errorf("%s: nil Meta with nil error", what)
	}
	var names []string
	var hdrSum, bodySum int64
	for _, e := range entries {
		names = append(names, e.Name)
		if e.Typeflag == tar.TypeReg {
			hdrSum += e.Size
			bodySum += e.BodyLen
		} else if e.Size != 0 {
			return fmt.Errorf("%s: non-regular entry %q records the size %d in its header", what, e.Name, e.Size)
		}
	}
	if fmt.Sprint(meta.Files) != fmt.Sprint(names) {
		return fmt.Errorf("%s: Meta.Files = %v, the slug holds %v", what, meta.Files, names)
	}
	if meta.Size != bodySum || meta.Size != hdrSum {
		return fmt.Errorf("%s: Meta.Size = %d, content bytes stored = %d, sum of header sizes = %d", what, meta.Size, bodySum, hdrSum)
	}
	return nil
}

type gateWriter struct {
	buf   bytes.Buffer
	gate  chan struct{}
	first chan struct{}
	once  bool
}

func (w *gateWriter) Write(p []byte) (int, error) {
	if !w.once {
		w.once = true
		close(w.first)
		<-w.gate
	}
	return w.buf.Write(p)
}

var subReuse = ev.Register("reuse", func(c ReuseCase) error {
	r, cleanup := fsx.Scratch("c20r-")
	defer cleanup()
	srcA, srcB := filepath.Join(r, "a", "src"), filepath.Join(r, "b", "src")
	if err := fsx.Materialise(srcA, fsx.RawNames(c.Tree), nil); err != nil {
		return fmt.Errorf("harness: %v", err)
	}
	other := c.Other
	if !c.Overlap && !c.Twice {
		// a tree whose Pack fails after some entries: an out-of-tree link that may not be stored
		other = append(append(fsx.Tree{}, c.Other...), fsx.Node{Path: "zzz-out", Kind: "symlink", Target: "../../../nowhere/at/all"})
	}
	if err := fsx.Materialise(srcB, other, nil); err != nil {
		return fmt.Errorf("harness: %v", err)
	}
	p, err := pk.Opts{Ignore: c.Ignore}.Packer(nil)
	if err != nil {
		return fmt.Errorf("harness: %v", err)
	}
	ev.NonTrivial(c, "packer-reused")
	if c.Twice {
		type result struct {
			what string
			meta *slug.Meta
			data []byte
		}
		var results []result
		for i, src := range []string{srcB, srcA, srcB} {
			var buf bytes.Buffer
			meta, perr := p.Pack(src, &buf)
			if perr != nil {
				ev.Label("pack-error")
				return nil
			}
			what := fmt.Sprintf("Pack number %d on one Packer value", i+1)
			if err := metaMatches(what, meta, buf.Bytes()); err != nil {
				return err
			}
			results = append(results, result{what, meta, buf.Bytes()})
		}
		// a Meta handed out earlier still describes its own slug
		for _, res := range results {
			if err := metaMatches(res.what+", looked at again after the later Packs", res.meta, res.data); err != nil {
				return err
			}
		}
		return nil
	}
	if !c.Overlap {
		var junk bytes.Buffer
		func() {
			defer func() { recover() }()
			p.Pack(srcB, &junk)
		}()
		var buf bytes.Buffer
		meta, perr := p.Pack(srcA, &buf)
		if perr != nil {
			ev.Label("pack-error")
			return nil
		}
		return metaMatches("Pack after a Pack of another tree that failed half-way, same Packer", meta, buf.Bytes())
	}
	wa := &gateWriter{gate: make(chan struct{}), first: make(chan struct{})}
	var metaA *slug.Meta
	var errA error
	done := make(chan struct{})
	go func() {
		defer close(done)
		defer func() { recover() }()
		metaA, errA = p.Pack(srcA, wa)
	}()
	select {
	case <-wa.first:
	case <-done: // nothing was written before Pack ended
	}
	var bufB bytes.Buffer
	var metaB *slug.Meta
	var errB error
	doneB := make(chan struct{})
	go func() {
		defer close(doneB)
		defer func() { recover() }()
		metaB, errB = p.Pack(srcB, &bufB)
	}()
	select {
	case <-doneB:
	case <-time.After(3 * time.Second):
		// the Packer makes its Packs take turns: B waits for A, which waits for us
		ev.Label("packs-serialised")
	}
	close(wa.gate)
	<-done
	<-doneB
	if errA != nil || errB != nil {
		ev.Label("pack-error")
		return nil
	}
	if err := metaMatches("Pack A (held at its first write while Pack B ran on the same Packer)", metaA, wa.buf.Bytes()); err != nil {
		return err
	}
	return metaMatches("Pack B (run while Pack A was in progress on the same Packer)", metaB, bufB.Bytes())
})

func TestPropReuse(t *testing.T) {
	ev.Check(t, subReuse, func(t *rapid.T) ReuseCase {
		cfg := tgen.Config{MaxNodes: 8, Links: true, IgnoreNames: true, Awkward: true}
		return ReuseCase{Tree: tgen.Gen(t, cfg), Other: tgen.Gen(t, cfg), Ignore: rapid.Bool().Draw(t, "ignore"), Overlap: rapid.Bool().Draw(t, "overlap"), Twice: rapid.IntRange(0, 2).Draw(t, "twice") == 0}
	})
}

func names(run *packcase.Run) []string {
	var out []string
	for _, e := range run.Entries {
		out = append(out, e.Name)
	}
	return out
}

func TestPropMeta(t *testing.T) {
	ev.Check(t, subMeta, func(t *rapid.T) packcase.Case { return packcase.Gen(t, rapid.Bool().Draw(t, "outlinks")) })
}

func TestReplay(t *testing.T) { ev.Replay(t) }
func TestKnown(t *testing.T)  { ev.KnownFindings(t) }
