// C20 — the metadata Pack returns describes the slug it wrote.
package c20

import (
	"archive/tar"
	"fmt"
	"testing"

	"pgregory.net/rapid"

	"verif/lib/ev"
	"verif/lib/packcase"
	"verif/lib/tgen"
)

func TestMain(m *testing.M) { ev.Main(m, "C20") }

var subMeta = ev.Register("meta", checkMeta)

func checkMeta(c packcase.Case) error {
	run, err := packcase.Execute(c)
	if err != nil {
		return fmt.Errorf("harness: %v", err)
	}
	defer run.Cleanup()
	if run.Panic != nil {
		return fmt.Errorf("Pack panicked: %v", run.Panic)
	}
	if run.Err != nil {
		ev.Label("pack-error")
		return nil
	}
	if run.DecErr != nil {
		return fmt.Errorf("produced slug does not decode: %v", run.DecErr)
	}
	f := tgen.Describe(c.Tree)
	derefd := false
	for _, l := range run.Links(c) {
		if l.Outside && c.Opts.Deref && !l.Allowed {
			derefd = true
		}
	}
	switch {
	case derefd:
		ev.NonTrivial(c, "dereferenced-link")
	case c.Opts.Ignore:
		ev.NonTrivial(c, "ignore-processing")
	case f.EmptyFile:
		ev.NonTrivial(c, "empty-file")
	case len(c.Tree) == 0:
		ev.NonTrivial(c, "empty-tree")
	case f.Link:
		ev.NonTrivial(c, "links")
	}
	if run.Meta == nil {
		return fmt.Errorf("Pack returned nil error and nil Meta")
	}
	if len(run.Meta.Files) != len(run.Entries) {
		return fmt.Errorf("Meta.Files has %d names, the slug has %d entries (%v vs %v)", len(run.Meta.Files), len(run.Entries), run.Meta.Files, names(run))
	}
	var hdrSum, bodySum int64
	for i, e := range run.Entries {
		if run.Meta.Files[i] != e.Name {
			return fmt.Errorf("Meta.Files[%d] = %q but entry %d of the slug is %q (order or name differs)", i, run.Meta.Files[i], i, e.Name)
		}
		if e.Typeflag == tar.TypeReg {
			hdrSum += e.Size
			bodySum += e.BodyLen
		} else if e.BodyLen != 0 {
			return fmt.Errorf("non-regular entry %q carries %d content bytes", e.Name, e.BodyLen)
		}
	}
	if run.Meta.Size != bodySum || run.Meta.Size != hdrSum {
		return fmt.Errorf("Meta.Size = %d, content bytes stored = %d, sum of header sizes = %d", run.Meta.Size, bodySum, hdrSum)
	}
	return nil
}

func names(run *packcase.Run) []string {
	var out []string
	for _, e := range run.Entries {
		out = append(out, e.Name)
	}
	return out
}

func TestPropMeta(t *testing.T) {
	ev.Check(t, subMeta, func(t *rapid.T) packcase.Case { return packcase.Gen(t, rapid.Bool().Draw(t, "outlinks")) })
}

func TestReplay(t *testing.T) { ev.Replay(t) }
func TestKnown(t *testing.T)  { ev.KnownFindings(t) }
