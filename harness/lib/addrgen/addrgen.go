// Package addrgen: generators for source address strings (C06, C07, C19-i),
// an independent transport-policy predicate and helpers to drive every parser.
package addrgen

import (
	"fmt"
	"net/url"
	"strings"

	"github.com/hashicorp/go-slug/sourceaddrs"
	"pgregory.net/rapid"
)

var urlHosts = []string{"example.com", "git.example.com", "sub.example.co.uk", "example.com:8443", "127.0.0.1", "[::1]", "[2001:db8::1]:443",
	"localhost", "Example.COM", "xn--eckwd4c7c.example.com", "テラフォーム.example.com", "a-b.example.com", "example.com."}
var plainHosts = []string{"example.com", "git.example.com", "sub.example.co.uk", "example.com:8443", "127.0.0.1", "localhost", "a-b.example.com", "[2001:db8::1]:8443", "[::1]"}
var registryHosts = []string{"", "", "example.com", "terraform.example.com", "テラフォーム.example.com", "example.com:8443", "registry.terraform.io", "Example.COM", "app.terraform.io"}

var plainSegs = []string{"repo", "org", "my-repo", "mod_v2", "a.b", "x~y", "go-slug", "hashicorp", "v1", "1"}
var oddSegs = []string{"with space", "üni", "per%20cent", "plus+", "at@", "colon:", "semi;", "eq=", "amp&", "hash#", "q?", "%2F", "%2F%2F", "%2e%2e", "..", ".", "", "a//b", "star*", "quote\"", "back\\slash", "%", "%zz", " ", "tab\t"}
var subSegs = []string{"modules", "vpc", "a", "b", "examples", "x.tf", "sub-dir", "v2", "m_1"}
var oddSubSegs = []string{strings.Repeat("long-segment-", 160), "..shared", "...", ".hidden", "..", "line\nbreak", "cr\rlf", "sub{xff}net", "with space", "üni", "per%20cent", "plus+", "at@v1", "colon:", "hash#frag", "q?x", "%2F", "what%3F.md", "%3F", "%23frag", "%3f", "trail ", " lead", "..", ".", "", "@", "a@1.0.0", "star*", "semi;", "%", "~", "back\\slash"}
var names = []string{"hashicorp", "subnets", "cidr", "aws", "my-ns", "mod_1", "A", "a1", "x-y_z"}
var systems = []string{"aws", "azurerm", "cidr", "null", "a1", "k8s"}
var versions = []string{"1.0.0", "0.1.2", "2.10.3", "1.0.0-beta1", "1.2.3+build5", "0.0.1", "10.20.30", "1.0.0-rc.1+meta"}
var refVals = []string{"main", "v1.2.3", "feature/x", "abc123", "release-1", "a.b", "release//2024", "a//b"}

func segs(t *rapid.T, label string, pool, odd []string, oddPct, min, max int) []string {
	n := rapid.IntRange(min, max).Draw(t, label+"n")
	out := make([]string, n)
	for i := range out {
		if odd != nil && rapid.IntRange(0, 99).Draw(t, label+"odd?") < oddPct {
			out[i] = rapid.SampledFrom(odd).Draw(t, label+"oddseg")
		} else {
			out[i] = rapid.SampledFrom(pool).Draw(t, label+"seg")
		}
	}
	return out
}

// Valid draws a string from the documented grammar of accepted addresses
// (unreserved characters only). kind: local | registry | registryfinal | git | archive | shorthand.
// Raw renders the placeholder "{xff}" as the byte 0xff (not valid UTF-8), so that
// cases with such names stay serialisable; only checks that want the raw byte call it.
func Raw(s string) string { return strings.ReplaceAll(s, "{xff}", "\xff") }

func Valid(t *rapid.T, kind string) string {
	sub := ""
	if rapid.IntRange(0, 2).Draw(t, "sub?") > 0 {
		sub = "//" + strings.Join(segs(t, "sub", subSegs, nil, 0, 1, 3), "/")
	}
	switch kind {
	case "local":
		ups := rapid.IntRange(0, 3).Draw(t, "ups")
		ns := segs(t, "local", append(plainSegs, subSegs...), nil, 0, 0, 4)
		if ups == 0 {
			if len(ns) == 0 {
				return "./"
			}
			return "./" + strings.Join(ns, "/")
		}
		s := strings.TrimSuffix(strings.Repeat("../", ups), "/")
		if len(ns) > 0 {
			s += "/" + strings.Join(ns, "/")
		}
		if s == ".." {
			s = "../"
		}
		return s
	case "registry", "registryfinal":
		host := rapid.SampledFrom([]string{"", "", "example.com", "terraform.example.com", "テラフォーム.example.com", "example.com:8443"}).Draw(t, "rhost")
		s := rapid.SampledFrom(names).Draw(t, "ns") + "/" + rapid.SampledFrom(names).Draw(t, "name") + "/" + rapid.SampledFrom(systems).Draw(t, "sys")
		if host != "" {
			s = host + "/" + s
		}
		if kind == "registryfinal" {
			s += "@" + rapid.SampledFrom(versions).Draw(t, "version")
		}
		return s + sub
	case "git":
		scheme := rapid.SampledFrom([]string{"https", "https", "ssh"}).Draw(t, "scheme")
		s := "git::" + scheme + "://" + rapid.SampledFrom(plainHosts).Draw(t, "host") + "/" + strings.Join(segs(t, "path", plainSegs, nil, 0, 1, 3), "/")
		if rapid.Bool().Draw(t, "dotgit") {
			s += ".git"
		}
		s += sub
		if rapid.Bool().Draw(t, "ref?") {
			s += "?ref=" + rapid.SampledFrom(refVals).Draw(t, "ref")
		}
		return s
	case "archive":
		s := "https://" + rapid.SampledFrom(plainHosts).Draw(t, "host") + "/" + strings.Join(segs(t, "path", plainSegs, nil, 0, 0, 2), "/")
		if !strings.HasSuffix(s, "/") {
			s += "/"
		}
		switch rapid.IntRange(0, 4).Draw(t, "form") {
		case 4:
			// a directory-style URL (trailing slash) with the archive argument; never with a sub-path in the text
			s += "dl/?archive=tgz"
		case 0:
			s += "pkg.tgz" + sub
		case 1:
			s += "pkg-1.0.tar.gz" + sub
		case 2:
			s += "download" + sub + "?" + rapid.SampledFrom([]string{"archive=tgz", "archive=tar.gz", "archive=tar%2Egz", "%61rchive=tar.gz", "myarchive=tar.gz&archive=tar.gz",
				"archive=tar.gz&v=tar.gz", "x=archive=tar.gz&archive=tar.gz", "archive=tgz&tag=archive=tar.gz"}).Draw(t, "archive")
		default:
			s += "pkg.tgz" + sub + "?" + rapid.SampledFrom([]string{"token=abc", "v=1&w=2", "something=anything", "mirror=https://cdn.example.net/pkg.tgz", "next=//x", "sig=ab::cd"}).Draw(t, "q")
		}
		if rapid.IntRange(0, 5).Draw(t, "httptype") == 0 {
			s = "http::" + s
		}
		return s
	case "shorthand":
		s := rapid.SampledFrom([]string{"github.com", "gitlab.com"}).Draw(t, "forge") + "/" + rapid.SampledFrom(names).Draw(t, "org") + "/" + rapid.SampledFrom(plainSegs).Draw(t, "repo")
		if rapid.Bool().Draw(t, "dotgit") {
			s += ".git"
		}
		if rapid.Bool().Draw(t, "shsub") {
			s += "/" + strings.Join(segs(t, "shsub", subSegs, nil, 0, 1, 3), "/")
		}
		return s
	}
	panic("unknown kind " + kind)
}

var Kinds = []string{"local", "registry", "registryfinal", "git", "archive", "shorthand"}

// Violation returns a string that breaks exactly one documented rule of the
// remote address grammar (must be rejected), and the rule's name.
func Violation(t *rapid.T) (string, string) {
	host := rapid.SampledFrom(plainHosts).Draw(t, "vhost")
	sub := rapid.SampledFrom([]string{"", "//modules/vpc"}).Draw(t, "vsub")
	rules := []struct{ name, s string }{
		{"plain-http-archive", "http://" + host + "/pkg.tgz" + sub},
		{"plain-http-git", "git::http://" + host + "/repo.git" + sub},
		{"git-scheme", "git::git://" + host + "/repo.git" + sub},
		{"git-scheme-implied", "git://" + host + "/repo.git"},
		{"git-file-scheme", "git::file:///tmp/repo" + sub},
		{"userinfo-user", "git::https://user@" + host + "/repo.git" + sub},
		{"userinfo-password", "git::https://user:secret@" + host + "/repo.git" + sub},
		{"userinfo-empty-user", "git::https://:secret@" + host + "/repo.git"},
		{"userinfo-archive", "https://user:pw@" + host + "/pkg.tgz" + sub},
		{"userinfo-ssh", "git::ssh://git@" + host + "/repo.git" + sub},
		{"two-refs", "git::https://" + host + "/repo.git" + sub + "?ref=a&ref=b"},
		{"foreign-git-key", "git::https://" + host + "/repo.git" + sub + "?depth=1"},
		{"foreign-git-key-sshkey", "git::https://" + host + "/repo.git?sshkey=Zm9v"},
		{"foreign-git-key-with-ref", "git::ssh://" + host + "/repo.git?ref=main&depth=1"},
		{"checksum", "https://" + host + "/pkg.tgz" + sub + "?checksum=md5:abc"},
		{"checksum-behind-empty-subpath", "https://" + host + "/pkg.tgz//?checksum=md5:abc"},
		{"two-refs-behind-empty-subpath", "git::https://" + host + "/repo.git//?ref=a&ref=b"},
		{"foreign-git-key-behind-empty-subpath", "git::https://" + host + "/repo.git//?sshkey=Zm9v"},
		{"archive-zip-behind-empty-subpath", "https://" + host + "/download//?archive=zip"},
		{"checksum-with-archive", "https://" + host + "/download?archive=tgz&checksum=sha256:abc"},
		{"archive-zip", "https://" + host + "/download" + sub + "?archive=zip"},
		{"two-archive", "https://" + host + "/download?archive=tgz&archive=tgz"},
		{"empty-archive-with-suffix", "https://" + host + "/pkg.tgz" + sub + "?archive="},
		{"empty-then-zip-archive", "https://" + host + "/pkg.tar.gz?archive=&archive=zip"},
		{"empty-archive", "https://" + host + "/download?archive="},
		{"empty-then-tgz-archive", "https://" + host + "/pkg.tgz?archive=&archive=tgz"},
		{"no-archive-suffix", "https://" + host + "/pkg.zip" + sub},
		{"no-archive-suffix-bare", "https://" + host + "/download"},
		{"subpath-dot", "git::https://" + host + "/repo.git//a/./b"},
		{"subpath-dotdot", "git::https://" + host + "/repo.git//a/../b"},
		{"subpath-leading-dotdot", "git::https://" + host + "/repo.git//../b"},
		{"subpath-empty-segment", "git::https://" + host + "/repo.git//a//b"},
		{"subpath-trailing-slash", "https://" + host + "/pkg.tgz//a/"},
		{"subpath-only-dot", "https://" + host + "/pkg.tgz//."},
		{"unknown-type", "hg::https://" + host + "/repo"},
		{"unknown-type-s3", "s3::https://" + host + "/bucket/pkg.tgz"},
		{"unknown-scheme", "ftp://" + host + "/pkg.tgz"},
		{"redundant-type", "https::https://" + host + "/pkg.tgz"},
		{"no-scheme", "git::" + host + "/repo.git"},
		{"https-type-wrong-scheme", "https::ssh://" + host + "/pkg.tgz"},
		{"shorthand-too-short", "github.com/hashicorp"},
		{"shorthand-subpath-dotdot", "gitlab.com/hashicorp/repo/a/../b"},
		{"github-subpath-dotdot", "github.com/hashicorp/go-slug/modules/../examples"},
		{"github-subpath-dot", "github.com/hashicorp/go-slug/a/./b"},
		{"github-subpath-empty", "github.com/hashicorp/go-slug/a//b"},
		{"github-subpath-leading-dot", "github.com/hashicorp/go-slug/./a"},
		{"github-subpath-trailing-dot", "github.com/hashicorp/go-slug/a/."},
		{"github-subpath-trailing-dotdot", "github.com/hashicorp/go-slug/a/b/.."},
		{"github-subpath-trailing-slash", "github.com/hashicorp/go-slug/a/"},
		{"gitlab-subpath-dot", "gitlab.com/hashicorp/go-slug/a/./b"},
		{"gitlab-subpath-empty", "gitlab.com/hashicorp/go-slug/a//b"},
		{"gitlab-subpath-trailing-slash", "gitlab.com/hashicorp/go-slug/a/b/"},
		{"registry-like-subpath-dotdot", "git::https://" + host + "/repo.git//a/b/.."},
		{"subpath-trailing-dot", "git::https://" + host + "/repo.git//a/."},
	}
	r := rules[rapid.IntRange(0, len(rules)-1).Draw(t, "rule")]
	return r.s, r.name
}

var insertions = []string{"%", "/", "?", "#", "@", ":", ";", "&", " ", "+", "\\", "\"", "<", "[", "]", "{", "|", "^", "~", "`", "%2F", "%2f%2F", "//", "///", "////", "/////", "//////", "///////", "..", "/./", "&ref=x", "?ref=y",
	"user@", "user:pw@", "#frag", "#a//b", "ü", "‮", "\x7f", "::", "git::", "GIT::", "@1.0.0", "=", "%00", "\t", "?archive=tgz", "?checksum=1", "%25", "'"}

// Mutate applies 1-3 random edits.
func Mutate(t *rapid.T, s string) string {
	n := rapid.IntRange(1, 3).Draw(t, "nmut")
	for i := 0; i < n; i++ {
		r := []rune(s)
		switch rapid.IntRange(0, 6).Draw(t, "mutkind") {
		case 0: // flip the case of a letter
			if len(r) > 0 {
				p := rapid.IntRange(0, len(r)-1).Draw(t, "pos")
				if r[p] >= 'a' && r[p] <= 'z' {
					r[p] -= 32
				} else if r[p] >= 'A' && r[p] <= 'Z' {
					r[p] += 32
				}
				s = string(r)
			}
		case 1, 2: // insert something
			p := rapid.IntRange(0, len(r)).Draw(t, "pos")
			s = string(r[:p]) + rapid.SampledFrom(insertions).Draw(t, "ins") + string(r[p:])
		case 3: // delete a run
			if len(r) > 1 {
				p := rapid.IntRange(0, len(r)-1).Draw(t, "pos")
				q := p + rapid.IntRange(1, 4).Draw(t, "len")
				if q > len(r) {
					q = len(r)
				}
				s = string(r[:p]) + string(r[q:])
			}
		case 4: // scheme / type swaps
			s = strings.NewReplacer("https://", rapid.SampledFrom([]string{"http://", "HTTPS://", "ssh://", "git://", "file://", "https:", "https:/", "s3://"}).Draw(t, "scheme")).Replace(s)
		case 5:
			s = strings.Replace(s, "git::", rapid.SampledFrom([]string{"GIT::", "Git::", "hg::", "https::", "http::", "git:::", "::", "git:"}).Draw(t, "type"), 1)
		case 6: // swap in an odd segment
			parts := strings.Split(s, "/")
			p := rapid.IntRange(0, len(parts)-1).Draw(t, "seg")
			parts[p] = rapid.SampledFrom(append(append([]string{}, oddSegs...), oddSubSegs...)).Draw(t, "odd")
			s = strings.Join(parts, "/")
		}
	}
	return s
}

// Policy is the transport policy of C07, written against the accessors only.
func Policy(v sourceaddrs.RemoteSource) error {
	pkg := v.Package()
	typ := pkg.SourceType()
	u := pkg.URL()
	switch typ {
	case "git":
		if u.Scheme != "https" && u.Scheme != "ssh" {
			return fmt.Errorf("git source with scheme %q", u.Scheme)
		}
	case "http", "https":
		if u.Scheme != "https" {
			return fmt.Errorf("archive source with scheme %q", u.Scheme)
		}
	default:
		return fmt.Errorf("unknown source type %q", typ)
	}
	if u.User != nil {
		return fmt.Errorf("carries user information %q", u.User.String())
	}
	if u.Opaque != "" {
		return fmt.Errorf("opaque URL %q: no host/path to apply the policy to", u.Opaque)
	}
	// the query must be strictly parseable and hold only what is permitted
	q, err := url.ParseQuery(u.RawQuery)
	if err != nil {
		return fmt.Errorf("query %q does not parse: %v", u.RawQuery, err)
	}
	// anything that looks like a key in the raw text must also be a parsed key
	for _, pair := range strings.FieldsFunc(u.RawQuery, func(r rune) bool { return r == '&' || r == ';' }) {
		k, _, _ := strings.Cut(pair, "=")
		if uk, err := url.QueryUnescape(k); err == nil {
			k = uk
		}
		if _, ok := q[k]; !ok {
			return fmt.Errorf("query %q hides the argument %q from the parsed form", u.RawQuery, k)
		}
	}
	if typ == "git" {
		for k, vs := range q {
			if k != "ref" {
				return fmt.Errorf("git source with query argument %q", k)
			}
			if len(vs) > 1 {
				return fmt.Errorf("git source with %d ref arguments", len(vs))
			}
		}
	} else {
		if _, bad := q["checksum"]; bad {
			return fmt.Errorf("archive source with a checksum argument")
		}
		ep := u.EscapedPath()
		suffixOK := strings.HasSuffix(ep, ".tar.gz") || strings.HasSuffix(ep, ".tgz")
		av, hasArchive := q["archive"]
		switch {
		case hasArchive:
			if len(av) != 1 || av[0] != "tgz" {
				return fmt.Errorf("archive argument %v is not a single normalised 'tgz'", av)
			}
		case !suffixOK:
			return fmt.Errorf("archive source %q has neither a .tar.gz/.tgz path nor an archive argument", u.String())
		}
	}
	if sp := v.SubPath(); sp != "" {
		for _, seg := range strings.Split(sp, "/") {
			if seg == "" || seg == "." || seg == ".." {
				return fmt.Errorf("sub-path %q has an empty, '.' or '..' segment", sp)
			}
		}
	}
	return nil
}

// SubSegsPlain / SubSegsOdd expose the sub-path pools.
func SubSegsPlain() []string { return subSegs }
func SubSegsOdd() []string   { return oddSubSegs }

// GenSubPath draws a valid sub-path (no empty, '.', '..' segments), possibly
// with characters that URLs escape.
func GenSubPath(t *rapid.T, label string, oddPct int) string {
	var out []string
	for _, s := range segs(t, label, subSegs, oddSubSegs, oddPct, 1, 3) {
		if s == "" || s == "." || s == ".." || strings.Contains(s, "\\") {
			s = "m"
		}
		out = append(out, s)
	}
	return strings.Join(out, "/")
}
