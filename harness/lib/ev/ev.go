// Package ev is the evidence/recording layer shared by all property
// packages: evaluation counters, label histograms, distinct non-trivial case
// hashes, samples, failures (with their shrunk case as plain JSON), known
// findings and the glue around pgregory.net/rapid.
//
// One process = one "job" of the driver (vcheck.py). Everything recorded is
// written to the file named by VERIF_OUT when the test binary exits.
package ev

import (
	"encoding/base64"
	"encoding/binary"
	"encoding/json"
	"fmt"
	"hash/fnv"
	"os"
	"path/filepath"
	"runtime/debug"
	"sort"
	"strconv"
	"strings"
	"sync"
	"syscall"
	"testing"
)

// Failure is one falsified check, with the (shrunk) case as data.
type Failure struct {
	Sub     string          `json:"sub"`
	Case    json.RawMessage `json:"case"`
	Message string          `json:"message"`
	Known   string          `json:"known,omitempty"` // key of the known finding whose classifier matched
	Origin  string          `json:"origin"`          // rapid | exhaustive | replay | known | fuzz
}

// KnownStatus is the outcome of replaying one known-findings entry.
type KnownStatus struct {
	Key    string `json:"key"`
	Status string `json:"status"` // known | fixed
	What   string `json:"what"`
	Fails  bool   `json:"fails"`
	Msg    string `json:"msg,omitempty"`
}

type Finding struct {
	Status   string          `json:"status"`
	Property string          `json:"property"`
	Key      string          `json:"key"`
	Sub      string          `json:"sub"`
	What     string          `json:"what"`
	Commit   string          `json:"commit,omitempty"`
	Witness  json.RawMessage `json:"witness"`
}

type out struct {
	Property    string                       `json:"property"`
	Evaluations int64                        `json:"evaluations"`
	Labels      map[string]int64             `json:"labels"`
	Excluded    map[string]int64             `json:"excluded"`
	NonTrivial  string                       `json:"nontrivial_b64"`
	Samples     map[string][]json.RawMessage `json:"samples"`
	Failures    []Failure                    `json:"failures"`
	Known       []KnownStatus                `json:"known"`
	Notes       []string                     `json:"notes"`
	Exhaustive  map[string]bool              `json:"exhaustive"`
	RapidPassed map[string]int               `json:"rapid_passed"`
}

type recorder struct {
	mu         sync.Mutex
	prop       string
	evals      int64
	labels     map[string]int64
	excluded   map[string]int64
	nontrivial map[uint64]struct{}
	samples    map[string][]json.RawMessage
	failures   []Failure
	known      []KnownStatus
	notes      []string
	exhaustive map[string]bool
	passed     map[string]int
	findings   []Finding
	outFile    *os.File
}

var r = &recorder{
	labels:     map[string]int64{},
	excluded:   map[string]int64{},
	nontrivial: map[uint64]struct{}{},
	samples:    map[string][]json.RawMessage{},
	exhaustive: map[string]bool{},
	passed:     map[string]int{},
}

const maxSamplesPerLabel = 3

// VerifDir is /verif (or wherever the harness lives), from VERIF_DIR.
func VerifDir() string {
	if d := os.Getenv("VERIF_DIR"); d != "" {
		return d
	}
	return "/verif"
}

// Main is called from every package's TestMain.
func Main(m *testing.M, property string) {
	r.prop = property
	if p := os.Getenv("VERIF_OUT"); p != "" {
		f, err := os.OpenFile(p, os.O_CREATE|os.O_WRONLY|os.O_TRUNC, 0666)
		if err != nil {
			fmt.Fprintf(os.Stderr, "ev: cannot open VERIF_OUT: %v\n", err)
			os.Exit(3)
		}
		r.outFile = f
	}
	loadFindings()
	if u := os.Getenv("VERIF_UMASK"); u != "" {
		// a stricter process umask than the usual 022 (octal)
		if v, err := strconv.ParseUint(u, 8, 32); err == nil {
			syscall.Umask(int(v))
		}
	}
	if n := os.Getenv("VERIF_NOFILE"); n != "" {
		// a low limit on open files: descriptors that are not closed run out quickly
		if v, err := strconv.ParseUint(n, 10, 32); err == nil {
			lim := syscall.Rlimit{Cur: v, Max: v}
			if err := syscall.Setrlimit(syscall.RLIMIT_NOFILE, &lim); err != nil {
				fmt.Fprintf(os.Stderr, "ev: setrlimit: %v\n", err)
			}
		}
	}
	if u := os.Getenv("VERIF_DROP_UID"); u != "" {
		uid, _ := strconv.Atoi(u)
		if os.Getuid() == 0 && uid > 0 {
			if err := syscall.Setgroups([]int{uid}); err != nil {
				fmt.Fprintf(os.Stderr, "ev: setgroups: %v\n", err)
				os.Exit(3)
			}
			if err := syscall.Setgid(uid); err != nil {
				fmt.Fprintf(os.Stderr, "ev: setgid: %v\n", err)
				os.Exit(3)
			}
			if err := syscall.Setuid(uid); err != nil {
				fmt.Fprintf(os.Stderr, "ev: setuid: %v\n", err)
				os.Exit(3)
			}
		} else {
			Note("unprivileged pass requested but process is not root (uid %d): running with current uid", os.Getuid())
		}
	}
	code := m.Run()
	flush()
	os.Exit(code)
}

// The known-findings file is line oriented:
//
//	known: property=<id> <what fails> | {"key":..,"sub":..,"witness":{..}}
//	fixed: property=<id> <commit> <what failed> | {"key":..,"sub":..,"witness":{..}}
//
// Lines starting with '#' and blank lines are ignored.
func loadFindings() {
	p := os.Getenv("VERIF_KNOWN")
	if p == "" {
		p = filepath.Join(VerifDir(), "known_findings.txt")
	}
	b, err := os.ReadFile(p)
	if err != nil {
		return
	}
	for _, line := range strings.Split(string(b), "\n") {
		line = strings.TrimSpace(line)
		if line == "" || strings.HasPrefix(line, "#") {
			continue
		}
		f, err := ParseFindingLine(line)
		if err != nil {
			fmt.Fprintf(os.Stderr, "ev: bad known_findings line: %v\n", err)
			os.Exit(3)
		}
		r.findings = append(r.findings, f)
	}
}

// ParseFindingLine parses one line of the known-findings file.
func ParseFindingLine(line string) (Finding, error) {
	var f Finding
	head, js, ok := strings.Cut(line, " | {")
	if !ok {
		return f, fmt.Errorf("no JSON part in %q", line)
	}
	if err := json.Unmarshal([]byte("{"+js), &f); err != nil {
		return f, fmt.Errorf("%v in %q", err, line)
	}
	fields := strings.Fields(head)
	if len(fields) < 3 || !strings.HasPrefix(fields[1], "property=") {
		return f, fmt.Errorf("bad head %q", head)
	}
	f.Property = strings.TrimPrefix(fields[1], "property=")
	switch fields[0] {
	case "known:":
		f.Status = "known"
		f.What = strings.Join(fields[2:], " ")
	case "fixed:":
		f.Status = "fixed"
		f.Commit = fields[2]
		f.What = strings.Join(fields[3:], " ")
	default:
		return f, fmt.Errorf("bad status %q", fields[0])
	}
	return f, nil
}

// unmasked is the key of the finding whose witness is being replayed: its
// oracle-level exclusion is switched off for that run.
var unmasked string

// IsKnown reports whether key is listed with status "known" (for any
// property: a root cause listed under one property is excluded from the
// generators of the others too).
func IsKnown(key string) bool {
	if key == unmasked {
		return false
	}
	for _, f := range r.findings {
		if f.Key == key && f.Status == "known" {
			return true
		}
	}
	return false
}

func flush() {
	if r.outFile == nil {
		return
	}
	r.mu.Lock()
	defer r.mu.Unlock()
	hs := make([]uint64, 0, len(r.nontrivial))
	for h := range r.nontrivial {
		hs = append(hs, h)
	}
	sort.Slice(hs, func(i, j int) bool { return hs[i] < hs[j] })
	buf := make([]byte, 8*len(hs))
	for i, h := range hs {
		binary.LittleEndian.PutUint64(buf[8*i:], h)
	}
	o := out{
		Property:    r.prop,
		Evaluations: r.evals,
		Labels:      r.labels,
		Excluded:    r.excluded,
		NonTrivial:  base64.StdEncoding.EncodeToString(buf),
		Samples:     r.samples,
		Failures:    r.failures,
		Known:       r.known,
		Notes:       r.notes,
		Exhaustive:  r.exhaustive,
		RapidPassed: r.passed,
	}
	enc := json.NewEncoder(r.outFile)
	if err := enc.Encode(&o); err != nil {
		fmt.Fprintf(os.Stderr, "ev: write VERIF_OUT: %v\n", err)
	}
	r.outFile.Close()
}

// Eval counts one evaluation of an oracle.
func Eval() { r.mu.Lock(); r.evals++; r.mu.Unlock() }

// EvalN counts n evaluations.
func EvalN(n int) { r.mu.Lock(); r.evals += int64(n); r.mu.Unlock() }

// Label bumps a class counter.
func Label(l string) { r.mu.Lock(); r.labels[l]++; r.mu.Unlock() }

// LabelIf bumps a class counter when cond holds.
func LabelIf(cond bool, l string) {
	if cond {
		Label(l)
	}
}

// Excluded counts a draw that was steered away from a known finding.
func Excluded(key string) { r.mu.Lock(); r.excluded[key]++; r.mu.Unlock() }

// Note adds a free-text note to the evidence.
func Note(format string, a ...any) {
	r.mu.Lock()
	r.notes = append(r.notes, fmt.Sprintf(format, a...))
	r.mu.Unlock()
}

// Exhaustive records that a named finite sub-domain was enumerated completely.
func Exhaustive(name string, complete bool) {
	r.mu.Lock()
	r.exhaustive[name] = complete
	r.mu.Unlock()
}

// Hash of a case (via its JSON form).
func Hash(c any) uint64 {
	b, err := json.Marshal(c)
	if err != nil {
		panic(err)
	}
	h := fnv.New64a()
	h.Write(b)
	return h.Sum64()
}

// NonTrivial records a distinct non-trivial case and keeps a few samples per label.
func NonTrivial(c any, label string) {
	b, err := json.Marshal(c)
	if err != nil {
		panic(err)
	}
	h := fnv.New64a()
	h.Write(b)
	r.mu.Lock()
	r.nontrivial[h.Sum64()] = struct{}{}
	r.labels["nontrivial:"+label]++
	if len(r.samples[label]) < maxSamplesPerLabel && len(b) < 4096 {
		r.samples[label] = append(r.samples[label], json.RawMessage(b))
	}
	r.mu.Unlock()
}

// NonTrivialKey records a distinct non-trivial case by a string key (for
// enumerations where building JSON per case would dominate the cost).
func NonTrivialKey(key string, label string) {
	h := fnv.New64a()
	h.Write([]byte(key))
	r.mu.Lock()
	r.nontrivial[h.Sum64()] = struct{}{}
	r.labels["nontrivial:"+label]++
	if len(r.samples[label]) < maxSamplesPerLabel {
		b, _ := json.Marshal(key)
		r.samples[label] = append(r.samples[label], json.RawMessage(b))
	}
	r.mu.Unlock()
}

// Sample keeps an example case under a label without counting it.
func Sample(c any, label string) {
	r.mu.Lock()
	defer r.mu.Unlock()
	if len(r.samples[label]) >= maxSamplesPerLabel {
		return
	}
	b, err := json.Marshal(c)
	if err != nil || len(b) > 4096 {
		return
	}
	r.samples[label] = append(r.samples[label], json.RawMessage(b))
}

const maxFailuresPerSub = 4

func addFailure(f Failure) {
	r.mu.Lock()
	defer r.mu.Unlock()
	r.labels["failures:"+f.Sub]++
	n := 0
	for _, g := range r.failures {
		if g.Sub == f.Sub && g.Known == f.Known {
			n++
		}
	}
	if n >= maxFailuresPerSub {
		return
	}
	r.failures = append(r.failures, f)
}

// ---------------------------------------------------------------------------
// Sub-check registry (typed check functions over JSON-serialisable cases).

type subCheck struct {
	name        string
	run         func(raw json.RawMessage) error
	classifiers map[string]func(raw json.RawMessage) bool
}

var subs = map[string]*subCheck{}

// Sub is a registered sub-check over cases of type C.
type Sub[C any] struct {
	Name  string
	check func(C) error
	sc    *subCheck
}

// Register declares a sub-check. check must be a pure function of the case.
func Register[C any](name string, check func(C) error) *Sub[C] {
	s := &Sub[C]{Name: name, check: check}
	s.sc = &subCheck{
		name: name,
		run: func(raw json.RawMessage) error {
			var c C
			if err := json.Unmarshal(raw, &c); err != nil {
				return fmt.Errorf("replay: cannot decode case: %v", err)
			}
			return s.Run(c)
		},
		classifiers: map[string]func(raw json.RawMessage) bool{},
	}
	if _, dup := subs[name]; dup {
		panic("duplicate sub-check " + name)
	}
	subs[name] = s.sc
	return s
}

// Classifier attaches the narrow input predicate of a known finding: a failing
// case that satisfies it while the finding is listed as "known" is reported as
// that finding, not as a new violation.
func (s *Sub[C]) Classifier(key string, pred func(C) bool) *Sub[C] {
	s.sc.classifiers[key] = func(raw json.RawMessage) bool {
		var c C
		if err := json.Unmarshal(raw, &c); err != nil {
			return false
		}
		return pred(c)
	}
	return s
}

// Run evaluates the check on one case, converting panics into failures.
func (s *Sub[C]) Run(c C) (err error) {
	defer func() {
		if p := recover(); p != nil {
			err = fmt.Errorf("panic: %v\n%s", p, trimStack(debug.Stack()))
		}
	}()
	return s.check(c)
}

func trimStack(b []byte) string {
	lines := strings.Split(string(b), "\n")
	if len(lines) > 40 {
		lines = lines[:40]
	}
	return strings.Join(lines, "\n")
}

func classify(sc *subCheck, raw json.RawMessage) string {
	keys := make([]string, 0, len(sc.classifiers))
	for k := range sc.classifiers {
		keys = append(keys, k)
	}
	sort.Strings(keys)
	for _, k := range keys {
		if IsKnown(k) && sc.classifiers[k](raw) {
			return k
		}
	}
	return ""
}

// Fail records a failure for this sub-check.
func (s *Sub[C]) Fail(c C, err error, origin string) {
	raw, merr := json.Marshal(c)
	if merr != nil {
		raw = json.RawMessage(`"unserialisable case"`)
	}
	addFailure(Failure{Sub: s.Name, Case: raw, Message: err.Error(), Known: classify(s.sc, raw), Origin: origin})
}

// Do evaluates one case outside rapid (exhaustive enumerations): counts the
// evaluation, records a failure, and tells the caller whether it held.
func (s *Sub[C]) Do(c C) bool {
	Eval()
	if err := s.Run(c); err != nil {
		s.Fail(c, err, "exhaustive")
		return false
	}
	return true
}

// ---------------------------------------------------------------------------
// Replay and known findings (no rapid involved).

// Replay runs the case stored in the file named by VERIF_REPLAY.
func Replay(t *testing.T) {
	p := os.Getenv("VERIF_REPLAY")
	if p == "" {
		t.Skip("VERIF_REPLAY not set")
	}
	b, err := os.ReadFile(p)
	if err != nil {
		t.Fatalf("replay: %v", err)
	}
	var rf struct {
		Property string          `json:"property"`
		Sub      string          `json:"sub"`
		Case     json.RawMessage `json:"case"`
		Witness  json.RawMessage `json:"witness"`
	}
	if err := json.Unmarshal(b, &rf); err != nil {
		t.Fatalf("replay: %v", err)
	}
	if rf.Case == nil {
		rf.Case = rf.Witness
	}
	sc := subs[rf.Sub]
	if sc == nil {
		t.Fatalf("replay: unknown sub-check %q", rf.Sub)
	}
	Eval()
	if err := sc.run(rf.Case); err != nil {
		addFailure(Failure{Sub: rf.Sub, Case: rf.Case, Message: err.Error(), Known: classify(sc, rf.Case), Origin: "replay"})
		t.Errorf("replay fails: %v", err)
	}
}

// KnownFindings replays every listed finding of this property.
func KnownFindings(t *testing.T) {
	for _, f := range r.findings {
		if f.Property != r.prop {
			continue
		}
		sc := subs[f.Sub]
		if sc == nil {
			t.Errorf("known finding %s: unknown sub-check %q", f.Key, f.Sub)
			addFailure(Failure{Sub: f.Sub, Case: f.Witness, Message: "known finding names an unknown sub-check", Origin: "known"})
			continue
		}
		Eval()
		unmasked = f.Key
		err := sc.run(f.Witness)
		unmasked = ""
		ks := KnownStatus{Key: f.Key, Status: f.Status, What: f.What, Fails: err != nil}
		if err != nil {
			ks.Msg = err.Error()
		}
		r.mu.Lock()
		r.known = append(r.known, ks)
		r.mu.Unlock()
		if err != nil && f.Status == "fixed" {
			addFailure(Failure{Sub: f.Sub, Case: f.Witness, Message: "regression of fixed finding " + f.Key + ": " + err.Error(), Origin: "known"})
			t.Errorf("fixed finding %s fails again: %v", f.Key, err)
		}
	}
}

// ---------------------------------------------------------------------------
// Sharding helpers for exhaustive enumerations.

// Shard returns (k, n) from VERIF_SHARD="k/n" (default 0/1).
func Shard() (int, int) {
	s := os.Getenv("VERIF_SHARD")
	if s == "" {
		return 0, 1
	}
	var k, n int
	if _, err := fmt.Sscanf(s, "%d/%d", &k, &n); err != nil || n <= 0 || k < 0 || k >= n {
		return 0, 1
	}
	return k, n
}

// Tier returns "quick" or "thorough".
func Tier() string {
	if os.Getenv("VERIF_TIER") == "thorough" {
		return "thorough"
	}
	return "quick"
}

// EnvInt reads an integer knob passed by the driver.
func EnvInt(name string, def int) int {
	if v := os.Getenv(name); v != "" {
		if n, err := strconv.Atoi(v); err == nil {
			return n
		}
	}
	return def
}

// FuzzFail writes a failing case found by a native fuzz target as a replay
// file into VERIF_FUZZ_FAILDIR (the fuzz worker is a separate process).
func FuzzFail(sub string, c any, err error) {
	dir := os.Getenv("VERIF_FUZZ_FAILDIR")
	if dir == "" {
		return
	}
	raw, merr := json.Marshal(c)
	if merr != nil {
		return
	}
	known := ""
	if sc := subs[sub]; sc != nil {
		known = classify(sc, raw)
	}
	b, _ := json.Marshal(Failure{Sub: sub, Case: raw, Message: err.Error(), Origin: "fuzz", Known: known})
	name := fmt.Sprintf("%016x.json", Hash(c))
	os.WriteFile(filepath.Join(dir, name), b, 0644)
}

// Infra records an infrastructure problem (inconclusive run, never a violation).
func Infra(format string, a ...any) {
	r.mu.Lock()
	r.labels["infra-problem"]++
	msg := fmt.Sprintf(format, a...)
	if len(msg) > 1200 {
		msg = msg[:1200] + "..."
	}
	r.notes = append(r.notes, "INFRA: "+msg)
	r.mu.Unlock()
}
