package ev

import (
	"fmt"
	"regexp"
	"strconv"
	"strings"
	"testing"

	"pgregory.net/rapid"
)

// recTB is handed to rapid instead of *testing.T so that a falsified property
// does not abort the test binary before the shrunk case has been recorded.
type recTB struct {
	t      *testing.T
	failed bool
	msgs   []string
	logs   []string
}

type failNow struct{}

func (r *recTB) Helper()      {}
func (r *recTB) Name() string { return r.t.Name() }
func (r *recTB) Logf(format string, args ...any) {
	r.logs = append(r.logs, fmt.Sprintf(format, args...))
}
func (r *recTB) Log(args ...any)                   { r.logs = append(r.logs, fmt.Sprint(args...)) }
func (r *recTB) Skipf(format string, args ...any)  { r.t.Skipf(format, args...) }
func (r *recTB) Skip(args ...any)                  { r.t.Skip(args...) }
func (r *recTB) SkipNow()                          { r.t.SkipNow() }
func (r *recTB) Errorf(format string, args ...any) { r.failed = true; r.msgs = append(r.msgs, fmt.Sprintf(format, args...)) }
func (r *recTB) Error(args ...any)                 { r.failed = true; r.msgs = append(r.msgs, fmt.Sprint(args...)) }
func (r *recTB) Fatalf(format string, args ...any) {
	r.Errorf(format, args...)
	panic(failNow{})
}
func (r *recTB) Fatal(args ...any) { r.Error(args...); panic(failNow{}) }
func (r *recTB) FailNow()          { r.failed = true; panic(failNow{}) }
func (r *recTB) Fail()             { r.failed = true }
func (r *recTB) Failed() bool      { return r.failed }

var passedRe = regexp.MustCompile(`OK, passed (\d+) tests`)

// Check drives a registered sub-check with rapid: draw produces a case from
// rapid's bit stream (and nothing else), the sub-check judges it. On failure
// the last (i.e. shrunk) failing case is recorded as a Failure.
func Check[C any](t *testing.T, s *Sub[C], draw func(*rapid.T) C) {
	var lastCase C
	var lastErr error
	tb := &recTB{t: t}
	func() {
		defer func() {
			if p := recover(); p != nil {
				if _, ok := p.(failNow); !ok {
					panic(p)
				}
			}
		}()
		rapid.Check(tb, func(rt *rapid.T) {
			c := draw(rt)
			Eval()
			if err := s.Run(c); err != nil {
				lastCase, lastErr = c, err
				rt.Fatalf("falsified: %s", s.Name) // constant text: rapid only shrinks towards failures with the same message
			}
		})
	}()
	for _, l := range tb.logs {
		if m := passedRe.FindStringSubmatch(l); m != nil {
			n, _ := strconv.Atoi(m[1])
			r.mu.Lock()
			r.passed[t.Name()] += n
			r.mu.Unlock()
		}
	}
	if !tb.failed {
		return
	}
	if lastErr == nil {
		// rapid itself is unhappy (generator health, flaky property ...): an
		// infrastructure problem, not a violation.
		Note("rapid infrastructure failure in %s: %s", t.Name(), strings.Join(tb.msgs, " | "))
		t.Errorf("rapid infrastructure failure: %s", strings.Join(tb.msgs, " | "))
		r.mu.Lock()
		r.labels["infra-failure"]++
		r.mu.Unlock()
		return
	}
	s.Fail(lastCase, lastErr, "rapid")
	t.Errorf("%s falsified: %v", s.Name, lastErr)
}
