// Package fsx: tree model, materialisation, snapshots, diff and a physical
// (kernel-like) symlink resolver. See DESIGN.md §4.1/§4.2.
package fsx

import (
	"crypto/sha256"
	"encoding/hex"
	"fmt"
	"io"
	"os"
	"path/filepath"
	"sort"
	"strings"
	"syscall"
	"time"
)

// Node is one entry of a generated tree (path relative, slash separated).
type Node struct {
	Path    string `json:"path"`
	Kind    string `json:"kind"` // file | dir | symlink | fifo | socket
	Mode    uint32 `json:"mode,omitempty"`
	Sec     int64  `json:"sec,omitempty"`
	Nsec    int64  `json:"nsec,omitempty"`
	Content string `json:"content,omitempty"`
	Target  string `json:"target,omitempty"`
}

// Tree is a list of nodes; parents need not be listed (created 0755).
type Tree []Node

func (t Tree) Sorted() Tree {
	out := append(Tree(nil), t...)
	sort.SliceStable(out, func(i, j int) bool { return out[i].Path < out[j].Path })
	return out
}

// Subst replaces placeholders in generated strings.
func Subst(s string, vars map[string]string) string {
	for k, v := range vars {
		s = strings.ReplaceAll(s, "{"+k+"}", v)
	}
	return s
}

// RawNames renders the placeholder "{xe9}" in paths and link targets as the
// byte 0xe9: a Latin-1 "é", which is not valid UTF-8 but a legal file name.
// Generated trees carry the placeholder so that they survive JSON.
func RawNames(t Tree) Tree {
	out := make(Tree, len(t))
	for i, n := range t {
		n.Path = strings.ReplaceAll(n.Path, "{xe9}", "\xe9")
		n.Target = strings.ReplaceAll(n.Target, "{xe9}", "\xe9")
		out[i] = n
	}
	return out
}

// Materialise creates the tree under root (root is created if missing).
// Directory modes and all mtimes are applied bottom-up after the content is in place.
func Materialise(root string, t Tree, vars map[string]string) error {
	if err := os.MkdirAll(root, 0755); err != nil {
		return err
	}
	nodes := t.Sorted()
	for _, n := range nodes {
		p := filepath.Join(root, filepath.FromSlash(n.Path))
		if err := os.MkdirAll(filepath.Dir(p), 0755); err != nil {
			return fmt.Errorf("materialise %s: %v", n.Path, err)
		}
		switch n.Kind {
		case "dir":
			if err := os.MkdirAll(p, 0755); err != nil {
				return err
			}
		case "file":
			if err := os.WriteFile(p, []byte(n.Content), 0644); err != nil {
				return err
			}
		case "symlink":
			if err := os.Symlink(Subst(n.Target, vars), p); err != nil {
				return err
			}
		case "hardlink":
			// a second name for the file Target (relative to root): made once every file exists
			continue
		case "fifo":
			if err := syscall.Mkfifo(p, 0644); err != nil {
				return err
			}
		case "chardev":
			// /dev/null's numbers; needs privileges
			if err := syscall.Mknod(p, syscall.S_IFCHR|0644, 1<<8|3); err != nil {
				if err == syscall.EPERM || err == syscall.EACCES {
					continue // not privileged: the tree simply has no device node
				}
				return err
			}
		case "socket":
			fd, err := syscall.Socket(syscall.AF_UNIX, syscall.SOCK_STREAM, 0)
			if err != nil {
				return err
			}
			// bind via a short relative path to stay under the sun_path limit
			err = bindUnix(fd, p)
			syscall.Close(fd)
			if err != nil {
				return err
			}
		default:
			return fmt.Errorf("materialise: unknown kind %q", n.Kind)
		}
	}
	for _, n := range nodes {
		if n.Kind != "hardlink" {
			continue
		}
		p := filepath.Join(root, filepath.FromSlash(n.Path))
		os.MkdirAll(filepath.Dir(p), 0755)
		if err := os.Link(filepath.Join(root, filepath.FromSlash(Subst(n.Target, vars))), p); err != nil {
			return err
		}
	}
	// metadata bottom-up (reverse lexical order puts children before parents)
	for i := len(nodes) - 1; i >= 0; i-- {
		n := nodes[i]
		p := filepath.Join(root, filepath.FromSlash(n.Path))
		if n.Kind == "symlink" {
			if n.Sec != 0 || n.Nsec != 0 {
				ts := []syscall.Timespec{{Sec: n.Sec, Nsec: n.Nsec}, {Sec: n.Sec, Nsec: n.Nsec}}
				_ = utimesNanoAtNoFollow(p, ts)
			}
			continue
		}
		if n.Kind == "socket" || n.Kind == "chardev" || n.Kind == "hardlink" {
			continue
		}
		if n.Sec != 0 || n.Nsec != 0 {
			mt := time.Unix(n.Sec, n.Nsec)
			if err := os.Chtimes(p, mt, mt); err != nil {
				return err
			}
		}
	}
	for i := len(nodes) - 1; i >= 0; i-- {
		n := nodes[i]
		if n.Kind == "symlink" || n.Kind == "socket" || n.Kind == "chardev" || n.Kind == "hardlink" {
			continue
		}
		if n.Mode != 0 || n.Kind == "file" || n.Kind == "dir" {
			m := n.Mode
			if m == 0 {
				continue // "unset": keep the creation default
			}
			p := filepath.Join(root, filepath.FromSlash(n.Path))
			if err := os.Chmod(p, os.FileMode(m&0777)|specialBits(m)); err != nil {
				return err
			}
		}
	}
	return nil
}

func specialBits(m uint32) os.FileMode {
	var out os.FileMode
	if m&04000 != 0 {
		out |= os.ModeSetuid
	}
	if m&02000 != 0 {
		out |= os.ModeSetgid
	}
	if m&01000 != 0 {
		out |= os.ModeSticky
	}
	return out
}

var sockSeq int64

// bindUnix creates a unix socket file at p. sun_path is limited to 108
// bytes, so the socket is bound under a short name in the scratch directory
// and then renamed into place.
func bindUnix(fd int, p string) error {
	if len(p) < 100 {
		return syscall.Bind(fd, &syscall.SockaddrUnix{Name: p})
	}
	base := os.Getenv("VERIF_SCRATCH")
	if base == "" {
		base = os.TempDir()
	}
	sockSeq++
	short := filepath.Join(base, fmt.Sprintf(".s%d-%d", os.Getpid(), sockSeq))
	if err := syscall.Bind(fd, &syscall.SockaddrUnix{Name: short}); err != nil {
		return err
	}
	return os.Rename(short, p)
}

func utimesNanoAtNoFollow(path string, ts []syscall.Timespec) error {
	const atFdcwd = -0x64
	const atSymlinkNofollow = 0x100
	p, err := syscall.BytePtrFromString(path)
	if err != nil {
		return err
	}
	_, _, e := syscall.Syscall6(syscall.SYS_UTIMENSAT, uintptr(atFdcwd&0xffffffff), uintptr(ptr(p)), uintptr(ptrTS(&ts[0])), atSymlinkNofollow, 0, 0)
	if e != 0 {
		return e
	}
	return nil
}

// Entry is the observed state of one path.
type Entry struct {
	Type   string `json:"type"` // file dir symlink fifo socket char block other
	Mode   uint32 `json:"mode"` // permission + setuid/setgid/sticky as in st_mode&07777
	Size   int64  `json:"size"`
	Mtime  int64  `json:"mtime"` // ns
	Ctime  int64  `json:"ctime"` // ns
	Ino    uint64 `json:"ino"`
	Nlink  uint64 `json:"nlink"`
	Target string `json:"target,omitempty"`
	Sum    string `json:"sum,omitempty"`
}

func typeOf(m os.FileMode) string {
	switch {
	case m.IsRegular():
		return "file"
	case m.IsDir():
		return "dir"
	case m&os.ModeSymlink != 0:
		return "symlink"
	case m&os.ModeNamedPipe != 0:
		return "fifo"
	case m&os.ModeSocket != 0:
		return "socket"
	case m&os.ModeCharDevice != 0:
		return "char"
	case m&os.ModeDevice != 0:
		return "block"
	}
	return "other"
}

// Stat observes one path without following links.
func Stat(p string, withSum bool) (Entry, error) {
	fi, err := os.Lstat(p)
	if err != nil {
		return Entry{}, err
	}
	st := fi.Sys().(*syscall.Stat_t)
	e := Entry{
		Type:  typeOf(fi.Mode()),
		Mode:  uint32(st.Mode & 07777),
		Size:  fi.Size(),
		Mtime: st.Mtim.Sec*1e9 + st.Mtim.Nsec,
		Ctime: st.Ctim.Sec*1e9 + st.Ctim.Nsec,
		Ino:   st.Ino,
		Nlink: uint64(st.Nlink),
	}
	switch e.Type {
	case "symlink":
		e.Target, _ = os.Readlink(p)
	case "file":
		if withSum {
			f, err := os.Open(p)
			if err != nil {
				e.Sum = "unreadable"
			} else {
				h := sha256.New()
				io.Copy(h, f)
				f.Close()
				e.Sum = hex.EncodeToString(h.Sum(nil))[:24]
			}
		}
	case "dir":
		e.Size = 0 // directory sizes are a file-system detail
	}
	return e, nil
}

// Snapshot walks root physically (never following links) and returns the
// state of every path relative to root ("." is root itself). Paths for which
// skip returns true are not recorded and, if directories, not descended into.
func Snapshot(root string, skip func(rel string) bool) (map[string]Entry, error) {
	out := map[string]Entry{}
	var walk func(abs, rel string) error
	walk = func(abs, rel string) error {
		if skip != nil && skip(rel) {
			return nil
		}
		e, err := Stat(abs, true)
		if err != nil {
			return err
		}
		out[rel] = e
		if e.Type != "dir" {
			return nil
		}
		ents, err := os.ReadDir(abs)
		if err != nil {
			out[rel+"/<unreadable>"] = Entry{Type: "other"}
			return nil
		}
		for _, d := range ents {
			r := d.Name()
			if rel != "." {
				r = rel + "/" + d.Name()
			}
			if err := walk(filepath.Join(abs, d.Name()), r); err != nil {
				return err
			}
		}
		return nil
	}
	if err := walk(root, "."); err != nil {
		return nil, err
	}
	return out, nil
}

// Diff lists differences between two snapshots. fields selects what is compared
// in addition to existence and type.
func Diff(a, b map[string]Entry, fields string) []string {
	var out []string
	keys := map[string]bool{}
	for k := range a {
		keys[k] = true
	}
	for k := range b {
		keys[k] = true
	}
	ks := make([]string, 0, len(keys))
	for k := range keys {
		ks = append(ks, k)
	}
	sort.Strings(ks)
	has := func(f string) bool { return strings.Contains(fields, f) }
	for _, k := range ks {
		x, okx := a[k]
		y, oky := b[k]
		switch {
		case !okx:
			out = append(out, fmt.Sprintf("%s: created (%s)", k, y.Type))
			continue
		case !oky:
			out = append(out, fmt.Sprintf("%s: removed (%s)", k, x.Type))
			continue
		}
		if x.Type != y.Type {
			out = append(out, fmt.Sprintf("%s: type %s -> %s", k, x.Type, y.Type))
			continue
		}
		if has("mode") && x.Mode != y.Mode {
			out = append(out, fmt.Sprintf("%s: mode %04o -> %04o", k, x.Mode, y.Mode))
		}
		if has("size") && x.Size != y.Size {
			out = append(out, fmt.Sprintf("%s: size %d -> %d", k, x.Size, y.Size))
		}
		if has("mtime") && x.Mtime != y.Mtime {
			out = append(out, fmt.Sprintf("%s: mtime %d -> %d", k, x.Mtime, y.Mtime))
		}
		if has("ctime") && x.Ctime != y.Ctime {
			out = append(out, fmt.Sprintf("%s: ctime %d -> %d (metadata touched)", k, x.Ctime, y.Ctime))
		}
		if has("ino") && x.Ino != y.Ino {
			out = append(out, fmt.Sprintf("%s: inode %d -> %d (replaced)", k, x.Ino, y.Ino))
		}
		if has("nlink") && x.Nlink != y.Nlink && x.Type != "dir" {
			out = append(out, fmt.Sprintf("%s: nlink %d -> %d", k, x.Nlink, y.Nlink))
		}
		if has("target") && x.Target != y.Target {
			out = append(out, fmt.Sprintf("%s: link target %q -> %q", k, x.Target, y.Target))
		}
		if has("sum") && x.Sum != y.Sum {
			out = append(out, fmt.Sprintf("%s: content changed", k))
		}
	}
	return out
}

const AllFields = "mode size mtime ctime ino nlink target sum"

// ---------------------------------------------------------------------------
// Physical resolver.

// Resolve follows `target` starting in directory `dir` (an absolute, physical
// path) the way the kernel does: component by component, ".." applied to the
// resolved directory, links followed (hop limit 40). Past the first missing
// component resolution continues lexically. loop=true when the hop limit hit
// or the path runs through a non-directory: it leads nowhere.
func Resolve(dir, target string) (resolved string, exists bool, loop bool) {
	resolved, exists, loop, _ = ResolveVia(dir, target)
	return
}

// ResolveVia is Resolve, also reporting the links that were followed on the way.
func ResolveVia(dir, target string) (resolved string, exists bool, loop bool, via []string) {
	hops := 0
	var res func(cur string, rest []string, missing bool) (string, bool, bool)
	res = func(cur string, rest []string, missing bool) (string, bool, bool) {
		for len(rest) > 0 {
			c := rest[0]
			rest = rest[1:]
			switch c {
			case "", ".":
				continue
			case "..":
				cur = filepath.Dir(cur)
				continue
			}
			next := filepath.Join(cur, c)
			if missing {
				cur = next
				continue
			}
			fi, err := os.Lstat(next)
			if err != nil {
				missing = true
				cur = next
				continue
			}
			if fi.Mode()&os.ModeSymlink != 0 {
				hops++
				if hops > 40 {
					return next, false, true
				}
				t, err := os.Readlink(next)
				if err != nil {
					missing = true
					cur = next
					continue
				}
				via = append(via, next)
				tparts := strings.Split(t, "/")
				if strings.HasPrefix(t, "/") {
					cur = "/"
				}
				// resolve the link's own target first, then continue with rest
				rest = append(append([]string{}, tparts...), rest...)
				continue
			}
			if !fi.IsDir() && len(rest) > 0 {
				// the kernel refuses to walk through a non-directory (ENOTDIR): the path leads nowhere
				return next, false, true
			}
			cur = next
		}
		return cur, !missing, false
	}
	start := dir
	if strings.HasPrefix(target, "/") {
		start = "/"
	}
	resolved, exists, loop = res(start, strings.Split(target, "/"), false)
	return
}

// RealPath resolves every link in p (which must exist).
func RealPath(p string) (string, error) {
	r, err := filepath.EvalSymlinks(p)
	if err != nil {
		return "", err
	}
	return filepath.Abs(r)
}

// Inside reports whether p is root or below it (separator aware, both cleaned).
func Inside(root, p string) bool {
	root = filepath.Clean(root)
	p = filepath.Clean(p)
	if root == "/" {
		return true
	}
	return p == root || strings.HasPrefix(p, root+string(os.PathSeparator))
}

// RemoveAll removes a tree even when it contains unreadable/unwritable directories.
func RemoveAll(p string) {
	if err := os.RemoveAll(p); err == nil {
		return
	}
	filepath.Walk(p, func(q string, fi os.FileInfo, err error) error {
		if err == nil && fi.IsDir() {
			os.Chmod(q, 0700)
		}
		return nil
	})
	// second pass after the top levels became traversable
	filepath.Walk(p, func(q string, fi os.FileInfo, err error) error {
		if err == nil && fi.IsDir() {
			os.Chmod(q, 0700)
		}
		return nil
	})
	os.RemoveAll(p)
}

// Scratch returns a fresh per-case directory under VERIF_SCRATCH (tmpfs when
// the driver found one) and a cleanup function.
func Scratch(prefix string) (string, func()) {
	base := os.Getenv("VERIF_SCRATCH")
	if base == "" {
		base = os.TempDir()
	}
	d, err := os.MkdirTemp(base, prefix)
	if err != nil {
		panic(err)
	}
	os.Chmod(d, 0755)
	if r, err := filepath.EvalSymlinks(d); err == nil {
		d = r
	}
	return d, func() { RemoveAll(d) }
}
