package fsx

import (
	"syscall"
	"unsafe"
)

func ptr(p *byte) unsafe.Pointer               { return unsafe.Pointer(p) }
func ptrTS(p *syscall.Timespec) unsafe.Pointer { return unsafe.Pointer(p) }
