// Package mgen generates bundle manifest documents field by field (C18, C19-iii).
package mgen

import (
	"encoding/json"
	"strings"

	"pgregory.net/rapid"
)

type Pkg struct {
	Source string `json:"source"`
	Local  string `json:"local"`
	ID     string `json:"id,omitempty"`
	Msg    string `json:"msg,omitempty"`
}

type RegVer struct {
	V      string `json:"v"`
	Source string `json:"source"`
	Dep    bool   `json:"dep,omitempty"`
}

type Reg struct {
	Source   string   `json:"source"`
	Versions []RegVer `json:"versions"`
}

// Doc is a manifest as data; Raw (if set) replaces the rendered JSON entirely.
type Doc struct {
	Format   string `json:"format"` // rendered verbatim as the JSON value of terraform_source_bundle; "" = omitted
	Packages []Pkg  `json:"packages"`
	Registry []Reg  `json:"registry"`
	Raw      string `json:"raw,omitempty"`
}

func (d Doc) Render() []byte {
	if d.Raw != "" {
		return []byte(d.Raw)
	}
	var sb strings.Builder
	sb.WriteString("{")
	first := true
	field := func(k, rawv string) {
		if !first {
			sb.WriteString(",")
		}
		first = false
		kb, _ := json.Marshal(k)
		sb.Write(kb)
		sb.WriteString(":")
		sb.WriteString(rawv)
	}
	if d.Format != "" {
		field("terraform_source_bundle", d.Format)
	}
	var pk []map[string]any
	for _, p := range d.Packages {
		m := map[string]any{"source": p.Source, "local": p.Local}
		if p.ID != "" || p.Msg != "" {
			m["meta"] = map[string]string{"git_commit_id": p.ID, "git_commit_message": p.Msg}
		}
		pk = append(pk, m)
	}
	if pk != nil {
		b, _ := json.Marshal(pk)
		field("packages", string(b))
	}
	var rg []map[string]any
	for _, r := range d.Registry {
		vs := map[string]any{}
		for _, v := range r.Versions {
			e := map[string]any{"source": v.Source, "deprecation": nil}
			if v.Dep {
				e["deprecation"] = map[string]string{"Version": v.V, "Reason": "old", "Link": "https://example.com/d"}
			}
			vs[v.V] = e
		}
		rg = append(rg, map[string]any{"source": r.Source, "versions": vs})
	}
	if rg != nil {
		b, _ := json.Marshal(rg)
		field("registry", string(b))
	}
	sb.WriteString("}")
	return []byte(sb.String())
}

var Locals = []string{"", ".", "..", "a/b", "/abs", "x/../y", "..foo", "a\\b", "../sibling", "./x", "x/", "/", "//", "...", " ", "terraform-sources.json", ".tmp-1",
	"dRXMZnxbrisRq3jRfNb1VOMloQlF7TeT7BOK0ED1mQA", "pkgA", "pkgB", "pkgA", "ünï", "with space", "a\x00b", "..\\..", "c:", "~", "-", strings.Repeat("n", 300)}

var Sources = []string{"git::https://example.com/a.git", "https://example.com/b.tgz", "git::https://example.com/a.git?ref=v1", "git::https://example.com/c.git//sub", "https://example.com/dl?archive=tgz",
	"git::https://example.com/b.tgz", // the same URL text as the second one, another source type: another package
	"", "not a url", "./local", "hashicorp/x/aws", "http://example.com/plain.tgz", "git::https://user:pw@example.com/a.git", "git::https://example.com/a.git//../x", "::", "git::https://example.com/with space.git",
	"git::https://example.com/a.git#frag", "git::ssh://git.example.com/org/repo.git"}

var RegSources = []string{"example.com/ns/name/aws", "ns/name/null", "テラフォーム.example.com/ns/r2/k8s", "example.com/ns/name/aws//sub", "", "not-registry", "github.com/a/b/c", "git::https://example.com/a.git", "a/b/c/d/e"}
var Versions = []string{"1.0.0", "0.0.1", "2.0.0-beta", "1.2.3+meta", "v1.0.0", "1.0", "", "latest", "99999999999999999999.0.0", "1.0.0-" + strings.Repeat("9", 30), "1.0.0 ", "01.0.0", "1.99999999999999999999999.0"}
var RealSources = []string{"git::https://example.com/a.git", "git::https://example.com/a.git//modules/x", "https://example.com/b.tgz//sub/dir", "", "nonsense", "./rel", "git::https://example.com/zzz.git"}

// Gen draws a manifest document. hostile=0 gives mostly well-formed documents.
func Gen(t *rapid.T) Doc {
	var d Doc
	d.Format = rapid.SampledFrom([]string{"1", "1", "1", "1", "0", "2", "", "\"1\"", "1.0", "-1", "null", "18446744073709551616", "true", "[1]"}).Draw(t, "format")
	d.Packages = rapid.SliceOfN(rapid.Custom(func(t *rapid.T) Pkg {
		p := Pkg{Source: rapid.SampledFrom(Sources[:6]).Draw(t, "src"), Local: rapid.SampledFrom([]string{"pkgA", "pkgB", "pkgC", "dRXMZnxbrisRq3jRfNb1VOMloQlF7TeT7BOK0ED1mQA"}).Draw(t, "local")}
		if rapid.IntRange(0, 2).Draw(t, "hostilelocal") == 0 {
			p.Local = rapid.SampledFrom(Locals).Draw(t, "hlocal")
		}
		if rapid.IntRange(0, 4).Draw(t, "hostilesrc") == 0 {
			p.Source = rapid.SampledFrom(Sources).Draw(t, "hsrc")
		}
		if rapid.Bool().Draw(t, "meta") {
			p.ID = rapid.SampledFrom([]string{"abc", ""}).Draw(t, "id")
			p.Msg = rapid.SampledFrom([]string{"msg", ""}).Draw(t, "msg")
		}
		return p
	}), 0, 5).Draw(t, "packages")
	d.Registry = rapid.SliceOfN(rapid.Custom(func(t *rapid.T) Reg {
		r := Reg{Source: rapid.SampledFrom(RegSources[:3]).Draw(t, "rsrc")}
		if rapid.IntRange(0, 4).Draw(t, "hostilereg") == 0 {
			r.Source = rapid.SampledFrom(RegSources).Draw(t, "hrsrc")
		}
		r.Versions = rapid.SliceOfN(rapid.Custom(func(t *rapid.T) RegVer {
			v := RegVer{V: rapid.SampledFrom(Versions[:4]).Draw(t, "v"), Source: rapid.SampledFrom(RealSources[:3]).Draw(t, "real"), Dep: rapid.Bool().Draw(t, "dep")}
			if rapid.IntRange(0, 4).Draw(t, "hostilever") == 0 {
				v.V = rapid.SampledFrom(Versions).Draw(t, "hv")
			}
			if rapid.IntRange(0, 5).Draw(t, "hostilereal") == 0 {
				v.Source = rapid.SampledFrom(RealSources).Draw(t, "hreal")
			}
			return v
		}), 0, 3).Draw(t, "versions")
		return r
	}), 0, 3).Draw(t, "registry")
	if rapid.IntRange(0, 14).Draw(t, "raw?") == 0 {
		d.Raw = rapid.SampledFrom([]string{"", "{", "null", "[]", "{}", "\"x\"", "{\"terraform_source_bundle\":1,\"packages\":null}", "{\"terraform_source_bundle\":1,\"packages\":[null]}",
			"{\"terraform_source_bundle\":1,\"packages\":{}}", "{\"terraform_source_bundle\":1,\"registry\":[null]}", "{\"terraform_source_bundle\":1,\"registry\":null,\"packages\":[null,null]}",
			"{\"terraform_source_bundle\":1,\"registry\":[{\"source\":\"ns/name/null\",\"versions\":{\"1.0.0\":{\"source\":null,\"deprecation\":null}}},null]}", "{\"terraform_source_bundle\":1,\"packages\":[{\"source\":null,\"local\":null,\"meta\":null}]}", "{\"terraform_source_bundle\":1,\"registry\":[{\"source\":\"ns/name/null\",\"versions\":null}]}",
			"{\"terraform_source_bundle\":1,\"registry\":[{\"source\":\"ns/name/null\",\"versions\":{\"1.0.0\":null}}]}", "\xff\xfe", strings.Repeat("[", 100000)}).Draw(t, "raw")
	}
	return d
}
