// Package packcase: Pack experiments with content outside the source tree
// (C05, C20): case type, arena, generator and a runner that decodes the slug.
package packcase

import (
	"errors"
	"os"
	"path/filepath"
	"strings"

	slug "github.com/hashicorp/go-slug"
	"pgregory.net/rapid"

	"verif/lib/fsx"
	"verif/lib/pk"
	"verif/lib/tarx"
	"verif/lib/tgen"
)

type Case struct {
	Tree   fsx.Tree `json:"tree"`
	Opts   pk.Opts  `json:"opts"`
	Nested bool     `json:"nested,omitempty"` // external directories contain links of their own
	Rules  *string  `json:"rules,omitempty"`
	// the source is named through a symlink with a relative target, from a working
	// directory in which that relative target names another directory (with outside content)
	RootLink bool `json:"root_link,omitempty"`
	// a planted family (the nodes are part of Tree; family 2 adds a link to the outside content):
	// a link met inside a dereferenced directory that only leaves the tree by way of links of the tree
	Plant int `json:"plant,omitempty"`
	// the directory above the source directory is packed first, as a source of its own (same options):
	// nothing learnt about a directory by its path may be applied to another root
	ParentFirst bool `json:"parent_first,omitempty"`
}

// PlantOutside is the outside content of planted family 2: a link inside the
// external directory ext/d which, read as text, stays inside the source
// directory - on disk and at its place in the slug - but leaves it through
// the links "src -> ." and "up9 -> ." of the tree.
var PlantOutside = fsx.Tree{
	{Path: "ext/d/viaup", Kind: "symlink", Target: "../../src/up9/../ext/f"},
}

func plantNodes(family int) fsx.Tree {
	switch family {
	case 1:
		return fsx.Tree{
			{Path: "pr9", Kind: "dir", Mode: 0755, Sec: 1500000001},
			{Path: "pr9/keep", Kind: "file", Content: "IN:keep", Mode: 0644, Sec: 1500000002},
			{Path: "up9", Kind: "symlink", Target: "."},
			{Path: "pr9/l9", Kind: "symlink", Target: "../up9/../ext/f"},
			{Path: "x9", Kind: "symlink", Target: "../src/pr9"},
		}
	case 2:
		return fsx.Tree{
			{Path: "a9", Kind: "dir", Mode: 0755, Sec: 1500000001},
			{Path: "a9/X9", Kind: "symlink", Target: "../../ext/d"},
			{Path: "src", Kind: "symlink", Target: "."},
			{Path: "up9", Kind: "symlink", Target: "."},
		}
	}
	return nil
}

type Run struct {
	R, Src  string
	Vars    map[string]string
	Slug    []byte
	Meta    *slug.Meta
	Err     error
	Illegal bool // Err is an *IllegalSlugError
	Panic   any
	Entries []tarx.Decoded
	DecErr  error
	Cleanup func()
}

// Execute materialises the arena, runs Pack and decodes the result.
func Execute(c Case) (*Run, error) {
	r, cleanup := fsx.Scratch("pack-")
	run := &Run{R: r, Src: filepath.Join(r, "src"), Vars: map[string]string{"R": r}, Cleanup: cleanup}
	tr := fsx.RawNames(c.Tree)
	if c.Rules != nil {
		tr = append(fsx.Tree{{Path: ".terraformignore", Kind: "file", Content: *c.Rules, Mode: 0644, Sec: 1500000000}}, tr...)
	}
	if err := fsx.Materialise(run.Src, tr, run.Vars); err != nil {
		cleanup()
		return nil, err
	}
	out := tgen.OutsideTree
	if c.Nested {
		out = append(append(fsx.Tree{}, out...), tgen.NestedOutside...)
	}
	if c.Plant == 2 {
		out = append(append(fsx.Tree{}, out...), PlantOutside...)
	}
	if err := fsx.Materialise(r, out, run.Vars); err != nil {
		cleanup()
		return nil, err
	}
	srcArg := run.Src
	if c.RootLink {
		decoy := fsx.Tree{
			{Path: "links/lnrel", Kind: "symlink", Target: "../src"},
			{Path: "other/src/DECOY", Kind: "file", Content: "OUT:decoy", Mode: 0644, Sec: 1400000010},
			{Path: "other/sub", Kind: "dir", Mode: 0755},
		}
		if err := fsx.Materialise(r, decoy, run.Vars); err != nil {
			cleanup()
			return nil, err
		}
		old, _ := os.Getwd()
		if err := os.Chdir(filepath.Join(r, "other", "sub")); err != nil {
			cleanup()
			return nil, err
		}
		defer os.Chdir(old)
		srcArg = filepath.Join(r, "links", "lnrel")
	}
	if c.ParentFirst {
		pk.PackBytes(c.Opts, run.Vars, r)
	}
	run.Slug, run.Meta, run.Err, run.Panic = pk.PackBytes(c.Opts, run.Vars, srcArg)
	var ise *slug.IllegalSlugError
	run.Illegal = run.Err != nil && errors.As(run.Err, &ise)
	if run.Err == nil && run.Panic == nil {
		run.Entries, run.DecErr = tarx.Decode(run.Slug)
	}
	return run, nil
}

// LinkInfo classifies one symlink node of the tree by where its target lies,
// read as text at the link's own position on disk.
type LinkInfo struct {
	Path     string
	Target   string // rendered
	Absolute bool
	Lexical  string // cleaned absolute path the target denotes (one hop, no link following)
	Outside  bool   // Lexical is outside src (separator aware)
	Allowed  bool
	Climbs   bool // relative target that rises above the archive root at its own position
	ViaLink  bool // reads as inside the tree, leaves it only by way of another link
}

func (run *Run) Links(c Case) []LinkInfo {
	var out []LinkInfo
	for _, n := range fsx.RawNames(c.Tree) {
		if n.Kind != "symlink" {
			continue
		}
		li := LinkInfo{Path: n.Path, Target: fsx.Subst(n.Target, run.Vars)}
		li.Absolute = filepath.IsAbs(li.Target)
		if li.Absolute {
			li.Lexical = filepath.Clean(li.Target)
		} else {
			li.Lexical = filepath.Join(filepath.Dir(filepath.Join(run.Src, n.Path)), li.Target)
			li.Climbs = ClimbsAbove(n.Path, li.Target)
		}
		li.Outside = !fsx.Inside(run.Src, li.Lexical)
		// ... or the way the operating system follows it, through other links of the tree
		phys, _, loop := fsx.Resolve(filepath.Dir(filepath.Join(run.Src, n.Path)), li.Target)
		if !loop && !fsx.Inside(run.Src, phys) {
			if !li.Outside {
				li.ViaLink = true
			}
			li.Outside = true
		}
		for _, a := range c.Opts.Allow {
			p := fsx.Subst(a, run.Vars)
			if !filepath.IsAbs(p) {
				p = filepath.Join(run.Src, p)
			}
			if fsx.Inside(p, li.Lexical) || (li.ViaLink && fsx.Inside(p, phys)) {
				li.Allowed = true
			}
		}
		out = append(out, li)
	}
	return out
}

// ClimbsAbove: does a relative target, applied segment by segment at the
// archive position `name`, ever rise above the archive root?
func ClimbsAbove(name, target string) bool {
	depth := strings.Count(strings.Trim(name, "/"), "/") // directory depth of the link
	for _, seg := range strings.Split(target, "/") {
		switch seg {
		case "", ".":
		case "..":
			depth--
			if depth < 0 {
				return true
			}
		default:
			depth++
		}
	}
	return false
}

// Gen draws a case.
func Gen(t *rapid.T, outLinks bool) Case {
	cfg := tgen.Config{MaxNodes: 16, Links: true, OutLinks: outLinks, Special: true, IgnoreNames: true, HardLinks: true, Awkward: true}
	if outLinks {
		cfg.LinkPct = 38
	}
	c := Case{Tree: tgen.Gen(t, cfg)}
	c.Opts.Deref = rapid.Bool().Draw(t, "deref")
	c.Opts.Ignore = rapid.Bool().Draw(t, "ignore")
	if outLinks {
		switch rapid.IntRange(0, 9).Draw(t, "allow") {
		case 0:
			c.Opts.Allow = []string{"{R}/ext"}
		case 1:
			c.Opts.Allow = []string{"../ext"}
		case 2:
			c.Opts.Allow = []string{"{R}/ext/f"}
		case 3:
			c.Opts.Allow = []string{"../src-ev", "{R}/ex"}
		}
		c.Nested = rapid.Bool().Draw(t, "nested")
	}
	c.RootLink = rapid.IntRange(0, 5).Draw(t, "rootlink") == 0
	c.ParentFirst = rapid.IntRange(0, 4).Draw(t, "parentfirst") == 0
	if outLinks && rapid.IntRange(0, 11).Draw(t, "plant?") == 0 {
		c.Plant = rapid.IntRange(1, 2).Draw(t, "plant")
		planted := plantNodes(c.Plant)
		taken := map[string]bool{}
		for _, n := range planted {
			taken[n.Path] = true
		}
		keep := append(fsx.Tree{}, planted...)
		for _, n := range c.Tree {
			top := strings.SplitN(n.Path, "/", 2)[0]
			if taken[n.Path] || taken[top] {
				continue
			}
			keep = append(keep, n)
		}
		c.Tree = keep
		c.Nested = false
		c.Opts.Allow = nil
	}
	return c
}
