// Package pk: helpers shared by the Pack-side checks (options, running Pack
// and Unpack with panic capture, comparing trees).
package pk

import (
	"bytes"
	"fmt"
	"io"

	slug "github.com/hashicorp/go-slug"

	"verif/lib/fsx"
)

// Opts are packer options as data.
type Opts struct {
	Deref  bool     `json:"deref"`
	Ignore bool     `json:"ignore"`
	Allow  []string `json:"allow,omitempty"`
}

func (o Opts) Packer(vars map[string]string) (*slug.Packer, error) {
	var opts []slug.PackerOption
	if o.Deref {
		opts = append(opts, slug.DereferenceSymlinks())
	}
	if o.Ignore {
		opts = append(opts, slug.ApplyTerraformIgnore())
	}
	for _, a := range o.Allow {
		opts = append(opts, slug.AllowSymlinkTarget(fsx.Subst(a, vars)))
	}
	return slug.NewPacker(opts...)
}

// Pack runs Pack and converts a panic into an error value.
func Pack(o Opts, vars map[string]string, src string, w io.Writer) (meta *slug.Meta, err error, panicked any) {
	p, perr := o.Packer(vars)
	if perr != nil {
		return nil, perr, "harness-packer"
	}
	defer func() {
		if r := recover(); r != nil {
			panicked = r
		}
	}()
	meta, err = p.Pack(src, w)
	return meta, err, nil
}

// PackBytes packs into memory.
func PackBytes(o Opts, vars map[string]string, src string) ([]byte, *slug.Meta, error, any) {
	var buf bytes.Buffer
	m, err, p := Pack(o, vars, src, &buf)
	return buf.Bytes(), m, err, p
}

// Unpack runs Unpack with panic capture.
func Unpack(o Opts, vars map[string]string, data []byte, dst string) (err error, panicked any) {
	p, perr := o.Packer(vars)
	if perr != nil {
		return perr, "harness-packer"
	}
	defer func() {
		if r := recover(); r != nil {
			panicked = r
		}
	}()
	return p.Unpack(bytes.NewReader(data), dst), nil
}

func Errf(format string, a ...any) error { return fmt.Errorf(format, a...) }
