// Package refignore is an independent reference for the .terraformignore rule
// language, written from the property text (C03), not from go-slug's regular
// expression translation: segment-wise glob matching, no pruning.
//
//   - built-in rules first: .terraform/ , !.terraform/modules/ , .git/
//   - then the user's rules in order; the last matching rule wins
//   - '!' negates; a leading '/' anchors to the root, otherwise the pattern may
//     start at any depth; a trailing '/' selects a directory (never a file of
//     that name) and everything below it
//   - a backslash makes the next character ('#', '!', '*', '?') stand for itself
//   - '*' and '?' stay inside one path segment; a '**' segment spans zero or
//     more segments (one or more when it ends the pattern)
package refignore

import (
	"strings"
)

type Rule struct {
	Negated bool
	Segs    []string // pattern segments after normalisation ("**" possible)
	Text    string
}

// Default rules, in go-slug's documented order.
func Defaults() []Rule {
	return []Rule{
		{Segs: []string{"**", ".terraform", "**"}, Text: ".terraform/"},
		{Negated: true, Segs: []string{"**", ".terraform", "modules", "**"}, Text: "!.terraform/modules/"},
		{Segs: []string{"**", ".git", "**"}, Text: ".git/"},
	}
}

// Parse reads a rule file (user rules only).
func Parse(text string) []Rule {
	var out []Rule
	for _, line := range strings.Split(text, "\n") {
		line = strings.TrimSuffix(line, "\r")
		if len(line) == 0 {
			continue
		}
		p := strings.TrimSpace(line)
		if p == "" || p[0] == '#' {
			continue
		}
		if strings.Contains(p, "[") && !strings.Contains(p, "]") {
			// not a pattern (a bracket that is never closed): Pack ignores the line and applies the rest;
			// the bundle builder refuses the file loudly
			continue
		}
		r := Rule{Text: p}
		if p[0] == '!' {
			r.Negated = true
			p = p[1:]
		}
		if p == "" {
			continue
		}
		dirOnly := strings.HasSuffix(p, "/")
		anchored := strings.HasPrefix(p, "/")
		p = strings.Trim(p, "/")
		var segs []string
		if !anchored {
			segs = append(segs, "**")
		}
		if p != "" {
			segs = append(segs, strings.Split(p, "/")...)
		}
		if dirOnly {
			segs = append(segs, "**")
		}
		r.Segs = segs
		out = append(out, r)
	}
	return out
}

// Rules = defaults + user rules.
func Rules(userText string) []Rule {
	// go-slug reads the rule file line by line with a 64 KiB limit per line; a longer line makes the
	// file unreadable as a whole, and the documented fallback for an unreadable file is the default rules.
	for _, line := range strings.Split(userText, "\n") {
		if len(line) >= 64*1024 {
			return Defaults()
		}
	}
	return append(Defaults(), Parse(userText)...)
}

// matchSeg: glob within one segment ('*' any run, '?' one character).
func matchSeg(pat, s string) bool {
	pr, sr := []rune(pat), []rune(s)
	var rec func(i, j int) bool
	rec = func(i, j int) bool {
		for i < len(pr) {
			switch pr[i] {
			case '*':
				for k := j; k <= len(sr); k++ {
					if rec(i+1, k) {
						return true
					}
				}
				return false
			case '?':
				if j >= len(sr) {
					return false
				}
				i++
				j++
			case '\\':
				// the next character stands for itself
				if i+1 < len(pr) {
					i++
				}
				if j >= len(sr) || sr[j] != pr[i] {
					return false
				}
				i++
				j++
			default:
				if j >= len(sr) || sr[j] != pr[i] {
					return false
				}
				i++
				j++
			}
		}
		return j == len(sr)
	}
	return rec(0, 0)
}

func matchSegs(pat, path []string) bool {
	if len(pat) == 0 {
		return len(path) == 0
	}
	if pat[0] == "**" {
		if len(pat) == 1 {
			return len(path) >= 1 // a final ** needs something to span
		}
		for k := 0; k <= len(path); k++ {
			if matchSegs(pat[1:], path[k:]) {
				return true
			}
		}
		return false
	}
	if len(path) == 0 {
		return false
	}
	// the empty last segment of a directory form ("dir/") is only ever
	// spanned by a final "**" (i.e. by a directory rule)
	if path[0] == "" {
		return false
	}
	if !matchSeg(pat[0], path[0]) {
		return false
	}
	return matchSegs(pat[1:], path[1:])
}

// Excluded decides one path. dirForm tests a directory as "path/" (the form
// that asks "is this directory and everything below it excluded").
func Excluded(rules []Rule, path string, dirForm bool) bool {
	segs := strings.Split(path, "/")
	if dirForm {
		segs = append(segs, "")
	}
	ex := false
	for _, r := range rules {
		if matchSegs(r.Segs, segs) {
			ex = !r.Negated
		}
	}
	return ex
}

// MatchedBy returns the indices of the rules matching the path (file form).
func MatchedBy(rules []Rule, path string) []int {
	var out []int
	segs := strings.Split(path, "/")
	for i, r := range rules {
		if matchSegs(r.Segs, segs) {
			out = append(out, i)
		}
	}
	return out
}
