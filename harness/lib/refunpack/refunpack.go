// Package refunpack is a sequential reference interpreter for well-formed
// archives (C15), written from the property text: "a sequential reading of
// the entries": last entry for a path wins for files and directories, each
// file/dir has its recorded content, permission bits and mtime, each link its
// recorded target, directories get theirs after their contents are in place.
package refunpack

import (
	"path"
	"sort"
	"strings"

	"verif/lib/tarx"
)

type Node struct {
	Kind     string // file dir symlink
	Content  string
	Perm     int64
	MtimeNs  int64
	Target   string
	Explicit bool // directory named by an entry (mode/mtime are then prescribed)
}

// Verdict of the model for a whole archive.
type Result struct {
	Tree map[string]*Node
	// MustError: the archive contains an entry type that cannot be represented.
	MustError bool
	// MayError: the sequence contains a combination whose outcome the property
	// does not fix (type change at a path, link over an existing path, entry
	// below a link or a file); if Unpack succeeds the tree must still be Tree.
	MayError bool
	Why      []string
	// Root: the last directory entry that names the destination itself ("./", ".", "/"), if any:
	// its mode and time are prescribed for the destination directory.
	Root *Node
}

// Normalise maps an entry name to a path below dst ("" = dst itself).
func Normalise(name string) string {
	n := strings.TrimPrefix(name, "/")
	n = path.Clean("/" + n)
	return strings.TrimPrefix(n, "/")
}

// MtimeNs is the mtime Unpack must restore for an entry: nanoseconds survive
// only in PAX records.
func MtimeNs(e tarx.Entry) int64 {
	if e.Format == "pax" {
		return e.Sec*1e9 + e.Nsec
	}
	return e.Sec * 1e9
}

func Interpret(entries []tarx.Entry) Result {
	r := Result{Tree: map[string]*Node{}}
	may := func(why string) {
		r.MayError = true
		r.Why = append(r.Why, why)
	}
	for _, e := range entries {
		switch e.Type {
		case "xglobal":
			// nothing is extracted for it; Unpack may still refuse a name that runs through a link or a file
			if q := Normalise(e.Name); strings.Contains(q, "/") {
				for anc := q[:strings.LastIndex(q, "/")]; anc != ""; {
					if n, ok := r.Tree[anc]; ok && n.Kind != "dir" {
						may("global header named below a " + n.Kind)
					}
					if i := strings.LastIndex(anc, "/"); i >= 0 {
						anc = anc[:i]
					} else {
						anc = ""
					}
				}
			}
			continue
		case "hardlink", "fifo", "char", "block":
			r.MustError = true
			r.Why = append(r.Why, "unrepresentable type "+e.Type)
			return r // Unpack must stop here; nothing after it is prescribed
		}
		p := Normalise(e.Name)
		if p == "" {
			// the destination itself: only a directory entry makes sense; its
			// metadata is excluded from the comparison
			if e.Type != "dir" {
				may("non-directory entry for the destination itself")
			} else {
				r.Root = &Node{Kind: "dir", Perm: e.Mode & 0777, MtimeNs: MtimeNs(e), Explicit: true}
			}
			continue
		}
		// implicit parents
		blocked := false
		parts := strings.Split(p, "/")
		for i := 1; i < len(parts); i++ {
			q := strings.Join(parts[:i], "/")
			n := r.Tree[q]
			switch {
			case n == nil:
				r.Tree[q] = &Node{Kind: "dir"}
			case n.Kind == "symlink":
				may("entry below a link")
				blocked = true
			case n.Kind == "file":
				may("entry below a file")
				blocked = true
			}
			if blocked {
				break
			}
		}
		if blocked {
			return r // Unpack refuses; the rest is not prescribed
		}
		cur := r.Tree[p]
		switch e.Type {
		case "file", "filea":
			if cur != nil && cur.Kind == "dir" {
				may("file entry over a directory")
				return r
			}
			if cur != nil && cur.Kind == "symlink" {
				may("file entry over a link")
			}
			r.Tree[p] = &Node{Kind: "file", Content: e.Body, Perm: e.Mode & 0777, MtimeNs: MtimeNs(e)}
		case "dir":
			if cur != nil && cur.Kind == "file" {
				may("directory entry over a file")
				return r
			}
			if cur != nil && cur.Kind == "symlink" {
				may("directory entry over a link")
				cur = nil
			}
			if cur == nil {
				cur = &Node{Kind: "dir"}
				r.Tree[p] = cur
			}
			cur.Explicit = true
			cur.Perm = e.Mode & 0777
			cur.MtimeNs = MtimeNs(e)
		case "symlink":
			if cur != nil {
				may("link entry over an existing path")
				return r
			}
			r.Tree[p] = &Node{Kind: "symlink", Target: e.Link}
		default:
			r.MustError = true
			r.Why = append(r.Why, "unknown type "+e.Type)
			return r
		}
	}
	return r
}

func (r Result) Paths() []string {
	out := make([]string, 0, len(r.Tree))
	for k := range r.Tree {
		out = append(out, k)
	}
	sort.Strings(out)
	return out
}
