// Package rgen generates .terraformignore rule files in the documented rule
// language (C03) and, separately, degenerate ones (C19).
package rgen

import (
	"strings"

	"pgregory.net/rapid"
)

// Names shared between rule patterns and generated trees so that rules match often.
var Names = []string{"a", "b", "c", "foo", "bar", "x.txt", "main.tf", "mod", "sub", "data", "baz.txt", ".git", ".terraform", "modules",
	"plugins", "logs", "a+b", "(p)", "{c}", "x|y", "^c", "$d", "f.o", "données", "privé.txt", "größe", "#scratch#", "!NOTES.txt", "star*", "q?"}

// Literal metacharacter names (regex operators that the rule language treats literally).
var MetaNames = []string{"a+b", "(p)", "{c}", "x|y", "^c", "$d", "f.o"}

func hasMeta(s string) bool {
	return strings.ContainsAny(s, "+(){}|^$")
}

func genSeg(t *rapid.T) string {
	k := rapid.IntRange(0, 99).Draw(t, "segclass")
	name := rapid.SampledFrom(Names).Draw(t, "segname")
	if strings.ContainsAny(name, "#!*?") {
		// these only match themselves behind a backslash; unescaped they are a
		// comment, a negation or wildcards (which match the name as well)
		if k < 80 {
			return escapeSeg(name)
		}
		return name
	}
	switch {
	case k < 55:
		return name
	case k < 63:
		return "*"
	case k < 70:
		return "**"
	case k < 80:
		// prefix*  or *suffix
		r := []rune(name)
		cut := rapid.IntRange(0, len(r)).Draw(t, "cut")
		if rapid.Bool().Draw(t, "starfront") {
			return "*" + string(r[cut:])
		}
		return string(r[:cut]) + "*"
	case k < 88:
		r := []rune(name)
		i := rapid.IntRange(0, len(r)-1).Draw(t, "qpos")
		r[i] = '?'
		return string(r)
	case k < 93:
		return "*.*"
	default:
		return "?" + strings.Repeat("?", rapid.IntRange(0, 2).Draw(t, "qs"))
	}
}

// escapeSeg puts a backslash in front of every character that has a meaning in
// the rule language, so that the segment matches the name literally.
func escapeSeg(name string) string {
	var b strings.Builder
	for _, r := range name {
		if strings.ContainsRune("#!*?\\", r) {
			b.WriteByte('\\')
		}
		b.WriteRune(r)
	}
	return b.String()
}

// GenPattern draws one pattern (without negation / comment handling).
func GenPattern(t *rapid.T) string {
	n := rapid.IntRange(1, 3).Draw(t, "nsegs")
	segs := make([]string, n)
	for i := range segs {
		segs[i] = genSeg(t)
	}
	p := strings.Join(segs, "/")
	if rapid.IntRange(0, 9).Draw(t, "anchored") < 3 {
		p = "/" + p
	}
	if rapid.IntRange(0, 9).Draw(t, "dironly") < 3 {
		p += "/"
	}
	return p
}

// PatternFromPath derives a pattern that is likely to match the given path
// (or a neighbour of it): segments kept, wildcarded, or collapsed into "**".
func PatternFromPath(t *rapid.T, p string) string {
	segs := strings.Split(p, "/")
	// maybe only a prefix (a directory above the path) or a suffix (match at depth)
	if len(segs) > 1 {
		switch rapid.IntRange(0, 3).Draw(t, "slice") {
		case 0:
			segs = segs[:rapid.IntRange(1, len(segs)).Draw(t, "prefixlen")]
		case 1:
			segs = segs[rapid.IntRange(0, len(segs)-1).Draw(t, "suffixfrom"):]
		}
	}
	anchored := len(segs) == len(strings.Split(p, "/")) && rapid.IntRange(0, 9).Draw(t, "anchor") < 4
	// a wildcard standing where the path has a separator: '*' and '?' must not cross it
	if len(segs) >= 2 && rapid.IntRange(0, 11).Draw(t, "cross") == 0 {
		i := rapid.IntRange(0, len(segs)-2).Draw(t, "crossat")
		glue := rapid.SampledFrom([]string{"?", "*", "?*", "*?"}).Draw(t, "glue")
		joined := segs[i] + glue + segs[i+1]
		if rapid.Bool().Draw(t, "crosstrim") {
			// e.g. "fo*ar" for foo/bar
			a, b := []rune(segs[i]), []rune(segs[i+1])
			joined = string(a[:len(a)-len(a)/2]) + glue + string(b[len(b)/2:])
		}
		segs = append(append(append([]string{}, segs[:i]...), joined), segs[i+2:]...)
	}
	var out []string
	for i := 0; i < len(segs); i++ {
		s := segs[i]
		k := rapid.IntRange(0, 99).Draw(t, "mut")
		switch {
		case k < 58:
			if strings.ContainsAny(s, "#!*?") && k < 46 {
				s = escapeSeg(s) // the name itself, not a comment, negation or wildcard
			}
			out = append(out, s)
		case k < 70:
			out = append(out, "*")
		case k < 80:
			r := []rune(s)
			cut := rapid.IntRange(0, len(r)).Draw(t, "cut")
			if rapid.Bool().Draw(t, "front") {
				out = append(out, "*"+string(r[cut:]))
			} else {
				out = append(out, string(r[:cut])+"*")
			}
		case k < 86:
			r := []rune(s)
			if len(r) > 0 {
				r[rapid.IntRange(0, len(r)-1).Draw(t, "q")] = '?'
			}
			out = append(out, string(r))
		default:
			out = append(out, "**")
			if rapid.Bool().Draw(t, "swallow") {
				i++ // the ** stands for this segment and the next one
			}
		}
	}
	for i, seg := range out {
		// "**" is only part of the language as a whole segment
		for seg != "**" && strings.Contains(seg, "**") {
			seg = strings.ReplaceAll(seg, "**", "*")
		}
		out[i] = seg
	}
	pat := strings.Join(out, "/")
	if anchored {
		pat = "/" + pat
	}
	if rapid.IntRange(0, 9).Draw(t, "dironly") < 3 {
		pat += "/"
	}
	return pat
}

// GenRuleLines draws a rule file as a list of lines. paths (may be empty) are
// paths of the tree the rules will be applied to.
func GenRuleLines(t *rapid.T, paths ...string) []string {
	return rapid.SliceOfN(rapid.Custom(func(t *rapid.T) string {
		k := rapid.IntRange(0, 99).Draw(t, "lineclass")
		switch {
		case k < 6:
			return ""
		case k < 12:
			return "# " + rapid.SampledFrom(Names).Draw(t, "comment")
		case k < 15:
			// a line that is not a pattern (an opening bracket that is never closed): ignored, the rest applies
			return rapid.SampledFrom([]string{"[", "foo[", "![", "/a/[x", "*.[", "[/"}).Draw(t, "invalid")
		}
		var p string
		if len(paths) > 0 && k < 70 {
			p = PatternFromPath(t, paths[rapid.IntRange(0, len(paths)-1).Draw(t, "frompath")])
		} else {
			p = GenPattern(t)
		}
		if rapid.IntRange(0, 9).Draw(t, "neg") < 3 {
			p = "!" + p
		}
		switch rapid.IntRange(0, 11).Draw(t, "ws") {
		case 0:
			p = "  " + p
		case 1:
			p = p + "  "
		case 2:
			p = "\t" + p + " "
		}
		return p
	}), 0, 8).Draw(t, "rules")
}

// Render joins the lines (optionally with CRLF).
func Render(lines []string, crlf bool) string {
	sep := "\n"
	if crlf {
		sep = "\r\n"
	}
	if len(lines) == 0 {
		return ""
	}
	return strings.Join(lines, sep) + sep
}

// Features of a rule file, for non-trivial classification.
type Features struct {
	Negation, Anchored, DoubleStar, Wildcard, Meta, DirOnly bool
}

func Describe(lines []string) Features {
	var f Features
	for _, l := range lines {
		p := strings.TrimSpace(l)
		if p == "" || strings.HasPrefix(p, "#") {
			continue
		}
		if strings.HasPrefix(p, "!") {
			f.Negation = true
			p = p[1:]
		}
		if strings.HasPrefix(p, "/") {
			f.Anchored = true
		}
		if strings.HasSuffix(p, "/") {
			f.DirOnly = true
		}
		if strings.Contains(p, "**") {
			f.DoubleStar = true
		}
		if strings.ContainsAny(strings.ReplaceAll(p, "**", ""), "*?") {
			f.Wildcard = true
		}
		if hasMeta(p) {
			f.Meta = true
		}
	}
	return f
}
