// Package tarx builds tar.gz streams (well-formed through archive/tar, hostile
// through hand-written 512-byte headers), decodes produced slugs and provides
// fault-injecting readers and writers. See DESIGN.md §4.3.
package tarx

import (
	"archive/tar"
	"bytes"
	"compress/gzip"
	"errors"
	"fmt"
	"io"
	"strings"
	"time"
)

// Entry is one archive member as data.
type Entry struct {
	Name   string            `json:"name"`
	Type   string            `json:"type"` // file dir symlink hardlink fifo char block xglobal unknown(<c>) raw:<c>
	Mode   int64             `json:"mode"`
	Sec    int64             `json:"sec,omitempty"`
	Nsec   int64             `json:"nsec,omitempty"`
	Body   string            `json:"body,omitempty"`
	Link   string            `json:"link,omitempty"`
	Raw    bool              `json:"raw,omitempty"`    // write the header by hand (USTAR layout, GNU long names)
	Format string            `json:"format,omitempty"` // ustar | pax | gnu | "" (writer's choice)
	PAX    map[string]string `json:"pax,omitempty"`
	Size   *int64            `json:"size,omitempty"` // raw only: lie about the size
	Asec   int64             `json:"asec,omitempty"` // access time (pax / gnu only)
}

func typeflag(t string) byte {
	switch t {
	case "file":
		return tar.TypeReg
	case "filea":
		return tar.TypeRegA
	case "dir":
		return tar.TypeDir
	case "symlink":
		return tar.TypeSymlink
	case "hardlink":
		return tar.TypeLink
	case "fifo":
		return tar.TypeFifo
	case "char":
		return tar.TypeChar
	case "block":
		return tar.TypeBlock
	case "xglobal":
		return tar.TypeXGlobalHeader
	case "cont":
		return tar.TypeCont
	case "gnusparse":
		return tar.TypeGNUSparse
	}
	if strings.HasPrefix(t, "raw:") && len(t) == 5 {
		return t[4]
	}
	return 'Z'
}

func format(f string) tar.Format {
	switch f {
	case "ustar":
		return tar.FormatUSTAR
	case "pax":
		return tar.FormatPAX
	case "gnu":
		return tar.FormatGNU
	}
	return tar.FormatUnknown
}

// BuildTar renders the entries as an uncompressed tar stream.
func BuildTar(entries []Entry, vars map[string]string) ([]byte, error) {
	var buf bytes.Buffer
	tw := tar.NewWriter(&buf)
	for _, e := range entries {
		name := subst(e.Name, vars)
		link := subst(e.Link, vars)
		if e.Raw {
			if err := tw.Flush(); err != nil {
				return nil, err
			}
			writeRaw(&buf, e, name, link)
			continue
		}
		h := &tar.Header{
			Name:     name,
			Typeflag: typeflag(e.Type),
			Mode:     e.Mode,
			ModTime:  time.Unix(e.Sec, e.Nsec),
			Linkname: link,
			Format:   format(e.Format),
		}
		if e.Sec == 0 && e.Nsec == 0 {
			h.ModTime = time.Unix(0, 0)
		}
		if e.Type == "xglobal" {
			// the writer refuses a global header that carries anything but records
			h = &tar.Header{Name: name, Typeflag: tar.TypeXGlobalHeader, PAXRecords: e.PAX}
			if len(h.PAXRecords) == 0 {
				h.PAXRecords = map[string]string{"comment": "x"}
			}
			if err := tw.WriteHeader(h); err != nil {
				return nil, fmt.Errorf("tarx: header %q: %w", name, err)
			}
			continue
		}
		if len(e.PAX) > 0 {
			h.PAXRecords = e.PAX
		}
		if e.Asec != 0 && (e.Format == "pax" || e.Format == "gnu") {
			h.AccessTime = time.Unix(e.Asec, 0)
		}
		switch e.Type {
		case "file", "filea", "cont":
			h.Size = int64(len(e.Body))
		case "char", "block":
			h.Devmajor, h.Devminor = 1, 3
		}
		if err := tw.WriteHeader(h); err != nil {
			return nil, fmt.Errorf("tarx: header %q: %w", name, err)
		}
		if h.Size > 0 {
			if _, err := tw.Write([]byte(e.Body)); err != nil {
				return nil, err
			}
		}
	}
	if err := tw.Close(); err != nil {
		return nil, err
	}
	return buf.Bytes(), nil
}

func subst(s string, vars map[string]string) string {
	for k, v := range vars {
		s = strings.ReplaceAll(s, "{"+k+"}", v)
	}
	return s
}

func octal(b []byte, v int64) {
	s := fmt.Sprintf("%0*o", len(b)-1, v)
	if len(s) > len(b)-1 {
		s = s[len(s)-(len(b)-1):]
	}
	copy(b, s)
	b[len(b)-1] = 0
}

func rawHeader(name string, flag byte, mode, size, mtime int64, link string) []byte {
	h := make([]byte, 512)
	copy(h[0:100], name)
	octal(h[100:108], mode)
	octal(h[108:116], 0)
	octal(h[116:124], 0)
	octal(h[124:136], size)
	if mtime < 0 {
		mtime = 0
	}
	octal(h[136:148], mtime)
	h[156] = flag
	copy(h[157:257], link)
	copy(h[257:263], "ustar\x00")
	copy(h[263:265], "00")
	// checksum
	for i := 148; i < 156; i++ {
		h[i] = ' '
	}
	var sum int64
	for _, c := range h {
		sum += int64(c)
	}
	copy(h[148:156], fmt.Sprintf("%06o\x00 ", sum))
	return h
}

func pad(buf *bytes.Buffer, n int) {
	if r := n % 512; r != 0 {
		buf.Write(make([]byte, 512-r))
	}
}

func writeRaw(buf *bytes.Buffer, e Entry, name, link string) {
	flag := typeflag(e.Type)
	if len(name) > 100 {
		data := name + "\x00"
		buf.Write(rawHeader("././@LongLink", 'L', 0644, int64(len(data)), 0, ""))
		buf.WriteString(data)
		pad(buf, len(data))
		name = name[:100]
	}
	if len(link) > 100 {
		data := link + "\x00"
		buf.Write(rawHeader("././@LongLink", 'K', 0644, int64(len(data)), 0, ""))
		buf.WriteString(data)
		pad(buf, len(data))
		link = link[:100]
	}
	size := int64(0)
	hasBody := e.Type == "file" || e.Type == "filea" || strings.HasPrefix(e.Type, "raw:") || e.Type == "cont"
	if hasBody {
		size = int64(len(e.Body))
	}
	declared := size
	if e.Size != nil {
		declared = *e.Size
	}
	buf.Write(rawHeader(name, flag, e.Mode, declared, e.Sec, link))
	if hasBody {
		buf.WriteString(e.Body)
		pad(buf, len(e.Body))
	}
}

// Gzip compresses b.
func Gzip(b []byte) []byte {
	var buf bytes.Buffer
	zw, _ := gzip.NewWriterLevel(&buf, gzip.BestSpeed)
	zw.Write(b)
	zw.Close()
	return buf.Bytes()
}

// Build = BuildTar + Gzip.
func Build(entries []Entry, vars map[string]string) ([]byte, error) {
	t, err := BuildTar(entries, vars)
	if err != nil {
		return nil, err
	}
	return Gzip(t), nil
}

// BuildSplit renders the entries as a gzip stream of two members: the tar
// stream is cut in front of entry number k (0 < k < len(entries)) and each half
// is compressed on its own. Readers of gzip treat the concatenation as one stream.
func BuildSplit(entries []Entry, vars map[string]string, k int) ([]byte, error) {
	whole, err := BuildTar(entries, vars)
	if err != nil {
		return nil, err
	}
	if k <= 0 || k >= len(entries) {
		return Gzip(whole), nil
	}
	head, err := BuildTar(entries[:k], vars)
	if err != nil {
		return nil, err
	}
	cut := len(head) - 1024 // without the end-of-archive marker
	if cut <= 0 || cut > len(whole) || !bytes.Equal(head[:cut], whole[:cut]) {
		return Gzip(whole), nil
	}
	return append(Gzip(whole[:cut]), Gzip(whole[cut:])...), nil
}

// Decoded is one member read back from a slug.
type Decoded struct {
	Name     string `json:"name"`
	Typeflag byte   `json:"typeflag"`
	Mode     int64  `json:"mode"`
	Size     int64  `json:"size"`
	ModTime  int64  `json:"mtime_ns"`
	Linkname string `json:"linkname,omitempty"`
	Body     string `json:"body,omitempty"`
	BodyLen  int64  `json:"body_len"`
	Format   string `json:"format"`
}

// Decode lists the members of a tar.gz stream.
func Decode(slug []byte) ([]Decoded, error) {
	zr, err := gzip.NewReader(bytes.NewReader(slug))
	if err != nil {
		return nil, err
	}
	tr := tar.NewReader(zr)
	var out []Decoded
	for {
		h, err := tr.Next()
		if err == io.EOF {
			break
		}
		if err != nil {
			return out, err
		}
		body, err := io.ReadAll(tr)
		if err != nil {
			return out, err
		}
		d := Decoded{Name: h.Name, Typeflag: h.Typeflag, Mode: h.Mode, Size: h.Size, ModTime: h.ModTime.UnixNano(),
			Linkname: h.Linkname, BodyLen: int64(len(body)), Format: h.Format.String()}
		if len(body) <= 256 {
			d.Body = string(body)
		} else {
			d.Body = string(body[:64]) + fmt.Sprintf("...(%d bytes)", len(body))
		}
		out = append(out, d)
	}
	// the rest of the gzip stream must be readable to its end
	if _, err := io.Copy(io.Discard, zr); err != nil {
		return out, err
	}
	return out, nil
}

// ---------------------------------------------------------------------------
// Fault injection.

var ErrInjected = errors.New("injected I/O fault")

// FaultReader yields data[:at] and then fails with ErrInjected (or io.EOF /
// io.ErrUnexpectedEOF when truncate is set: the stream simply ends).
type FaultReader struct {
	data     []byte
	at       int
	pos      int
	truncate bool
	chunk    int
}

func NewFaultReader(data []byte, at int, truncate bool, chunk int) *FaultReader {
	if at > len(data) {
		at = len(data)
	}
	if chunk <= 0 {
		chunk = 1 << 20
	}
	return &FaultReader{data: data, at: at, truncate: truncate, chunk: chunk}
}

func (f *FaultReader) Read(p []byte) (int, error) {
	if f.pos >= f.at {
		if f.truncate {
			return 0, io.EOF
		}
		return 0, ErrInjected
	}
	n := len(p)
	if n > f.chunk {
		n = f.chunk
	}
	if n > f.at-f.pos {
		n = f.at - f.pos
	}
	copy(p, f.data[f.pos:f.pos+n])
	f.pos += n
	return n, nil
}

// FaultWriter accepts `at` bytes in total and then fails: the failing call
// performs a short write up to the limit and returns ErrInjected.
type FaultWriter struct {
	Buf    bytes.Buffer
	at     int
	Calls  []int // length of every Write call seen
	Failed bool
}

func NewFaultWriter(at int) *FaultWriter { return &FaultWriter{at: at} }

func (w *FaultWriter) Write(p []byte) (int, error) {
	w.Calls = append(w.Calls, len(p))
	if w.at >= 0 && w.Buf.Len()+len(p) > w.at {
		n := w.at - w.Buf.Len()
		if n < 0 {
			n = 0
		}
		w.Buf.Write(p[:n])
		w.Failed = true
		return n, ErrInjected
	}
	return w.Buf.Write(p)
}
