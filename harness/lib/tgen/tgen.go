// Package tgen generates source trees for Pack (C02, C03, C05, C16, C20, C12a, C19).
package tgen

import (
	"path"
	"strings"

	"pgregory.net/rapid"

	"verif/lib/fsx"
)

type Config struct {
	MaxNodes    int
	Links       bool // in-tree relative links (file, dir, dangling, chain)
	OutLinks    bool // links leaving the tree (C05): rendered with {R} placeholders
	Special     bool // fifos and unix sockets
	IgnoreNames bool // .git/.terraform/... names
	Awkward     bool // odd and long names
	Unpriv      bool // keep everything owner-accessible (unprivileged pass)
	OddTimes    bool // pre-1970 / post-2038 mtimes
	HardLinks   bool // some files are second names (hard links) of other files of the tree
	ExtraNames  []string
	LinkPct     int      // share of nodes that are symlinks (default 18)
	LinkIntents []string // overrides the set of link intents
}

var plainNames = []string{".DS_Store", "._main.tf", "a", "b", "c", "A", "Foo", "foo", "bar", "x.txt", "main.tf", "README.md", "mod", "sub", "data", "baz.txt"}
var ignoreNames = []string{".git", ".terraform", "modules", "terraform.d", ".terraform", ".git"}
var awkwardNames = []string{
	"with space", "-dash", ".hidden", "a+b", "(paren)", "[br]", "{cur}", "pipe|x", "^car", "$dol", "#hash", "!bang", "star*", "q?",
	"ünï", "日本語", "caf{xe9}.tf", "tab\tx", "line\nbreak", "back\\slash", "semi;colon", "a'b", "quote\"q", "..dots", "dots..", "...",
	strings.Repeat("L", 120), strings.Repeat("M", 255), strings.Repeat("é", 100),
}

type spec struct {
	Parent  int
	Name    string
	Kind    string
	Mode    uint32
	Sec     int64
	Nsec    int64
	Content string
	Intent  string
	Pick    int
}

var fileModes = []uint32{0644, 0644, 0755, 0600, 0444, 0400, 0777, 0640, 0664, 0000, 0100, 0200}
var fileModesUnpriv = []uint32{0644, 0644, 0755, 0600, 0444, 0400, 0777, 0640, 0664, 0500}
var dirModes = []uint32{0755, 0755, 0700, 0555, 0500, 0777, 0711, 0750, 0000, 0300}
var dirModesUnpriv = []uint32{0755, 0755, 0700, 0555, 0500, 0777, 0711, 0750}
var nsecs = []int64{0, 400000000, 500000000, 600000000, 999999999, 1, 499999999, 500000001}

func genSpec(cfg Config) *rapid.Generator[spec] {
	return rapid.Custom(func(t *rapid.T) spec {
		s := spec{Parent: rapid.IntRange(0, 63).Draw(t, "parent"), Pick: rapid.IntRange(0, 63).Draw(t, "pick")}
		nk := rapid.IntRange(0, 99).Draw(t, "nameclass")
		switch {
		case cfg.IgnoreNames && nk < 18:
			s.Name = rapid.SampledFrom(ignoreNames).Draw(t, "iname")
		case cfg.Awkward && nk < 34:
			s.Name = rapid.SampledFrom(awkwardNames).Draw(t, "aname")
		case len(cfg.ExtraNames) > 0 && nk < 60:
			s.Name = rapid.SampledFrom(cfg.ExtraNames).Draw(t, "xname")
		case nk >= 88:
			// a sibling sharing a prefix with another name, continued by a
			// character that sorts before '/': walk order != sorted-string order
			s.Name = rapid.SampledFrom(plainNames).Draw(t, "name") + rapid.SampledFrom([]string{".tf", "-x", "+y", " z", ".d", "!", "#1"}).Draw(t, "suffix")
		default:
			s.Name = rapid.SampledFrom(plainNames).Draw(t, "name")
		}
		k := rapid.IntRange(0, 99).Draw(t, "kind")
		lp := cfg.LinkPct
		if lp == 0 {
			lp = 18
		}
		switch {
		case k >= 93-lp && k < 93 && (cfg.Links || cfg.OutLinks):
			s.Kind = "symlink"
		case k < 45:
			s.Kind = "file"
		case k < 75:
			s.Kind = "dir"
		case k < 97 && cfg.Special:
			if cfg.Unpriv {
				s.Kind = rapid.SampledFrom([]string{"fifo", "socket"}).Draw(t, "special")
			} else {
				s.Kind = rapid.SampledFrom([]string{"fifo", "socket", "chardev"}).Draw(t, "special")
			}
		default:
			s.Kind = "file"
		}
		if s.Kind == "file" && cfg.HardLinks && rapid.IntRange(0, 11).Draw(t, "hardlink?") == 0 {
			s.Intent = "hardlink"
			s.Pick = rapid.IntRange(0, 1000).Draw(t, "hlpick")
		}
		switch s.Kind {
		case "file":
			if cfg.Unpriv {
				s.Mode = rapid.SampledFrom(fileModesUnpriv).Draw(t, "fmode")
			} else {
				s.Mode = rapid.SampledFrom(fileModes).Draw(t, "fmode")
			}
			c := rapid.IntRange(0, 49).Draw(t, "content")
			switch {
			case c < 3:
				s.Content = ""
			case c == 3:
				s.Content = "IN:big:" + strings.Repeat("0123456789abcdef", 4096)
			case c == 4:
				s.Content = strings.Repeat("\x00", 16) // a placeholder of zero bytes
			case c == 5:
				// data, then a long run of zero bytes up to the end (a "hole" at the tail)
				s.Content = "IN:zt:" + strings.Repeat("0123456789abcdef", 2500) + strings.Repeat("\x00", 30000)
			default:
				s.Content = "IN:" + string(rune('A'+c%26)) + s.Name
			}
		case "dir":
			if cfg.Unpriv {
				s.Mode = rapid.SampledFrom(dirModesUnpriv).Draw(t, "dmode")
			} else {
				s.Mode = rapid.SampledFrom(dirModes).Draw(t, "dmode")
			}
		case "symlink":
			var intents []string
			if cfg.Links {
				intents = append(intents, "file", "file", "dir", "dangling", "chain", "dotslash", "updown")
			}
			if cfg.OutLinks {
				intents = append(intents, "out-rel-file", "out-rel-dir", "out-abs-file", "out-abs-dir", "sibling-prefix", "in-abs", "out-chain", "out-dangling", "climb-by-name", "exact-parent", "exact-root", "out-via-dotlink")
			}
			if len(cfg.LinkIntents) > 0 {
				intents = cfg.LinkIntents
			}
			s.Intent = rapid.SampledFrom(intents).Draw(t, "intent")
		}
		s.Sec = 1500000000 + int64(rapid.IntRange(0, 1000000).Draw(t, "sec"))
		if cfg.OddTimes {
			switch rapid.IntRange(0, 29).Draw(t, "oddtime") {
			case 0:
				s.Sec = -86400 * 365
			case 1:
				s.Sec = 4102444800 + 12345
			case 2:
				s.Sec = 1
			case 3:
				s.Sec = 0 // within the first second of the epoch (a zero Sec and Nsec would mean "unset" to fsx)
			}
		}
		s.Nsec = rapid.SampledFrom(nsecs).Draw(t, "nsec")
		if s.Sec == 0 && s.Nsec == 0 {
			s.Nsec = 400000000
		}
		return s
	})
}

// OutsideTree is the fixed content placed around the source directory for
// cases with links that leave the tree: everything carries an OUT: token.
// Paths are relative to the arena root R; the source directory is R/src.
var OutsideTree = fsx.Tree{
	{Path: "src-evil", Kind: "dir", Mode: 0755},
	{Path: "src-evil/secret", Kind: "file", Content: "OUT:evil-secret", Mode: 0644, Sec: 1400000001},
	{Path: "ext", Kind: "dir", Mode: 0755},
	{Path: "ext/f", Kind: "file", Content: "OUT:ext-f", Mode: 0640, Sec: 1400000002, Nsec: 600000000},
	{Path: "ext/d", Kind: "dir", Mode: 0750, Sec: 1400000003},
	{Path: "ext/d/g", Kind: "file", Content: "OUT:ext-d-g", Mode: 0600, Sec: 1400000004},
	{Path: "ext/d/e", Kind: "dir", Mode: 0755, Sec: 1400000005},
	{Path: "ext/d/e/h", Kind: "file", Content: "OUT:ext-d-e-h", Mode: 0644, Sec: 1400000006},
	{Path: "ext/chain", Kind: "symlink", Target: "f"},
	{Path: "ext/chain2", Kind: "symlink", Target: "chain"},
	{Path: "ext/dirchain", Kind: "symlink", Target: "d"},
	{Path: "x/y/z/ext2", Kind: "dir", Mode: 0755},
	{Path: "x/y/z/ext2/k", Kind: "file", Content: "OUT:ext2-k", Mode: 0644, Sec: 1400000007},
	// a directory link inside ext: "ext/dl/.." is x/y/z for the operating system and ext when read as text;
	// k2 and sub2 exist at both places, with equally long but different content and other modes
	{Path: "ext/dl", Kind: "symlink", Target: "{R}/x/y/z/ext2"},
	{Path: "ext/k2", Kind: "file", Content: "OUT:k2-textual", Mode: 0600, Sec: 1400000020},
	{Path: "x/y/z/k2", Kind: "file", Content: "OUT:k2-physicl", Mode: 0644, Sec: 1400000021},
	{Path: "ext/sub2/in-ext", Kind: "file", Content: "OUT:sub2-textual", Mode: 0600, Sec: 1400000022},
	{Path: "x/y/z/sub2/in-z", Kind: "file", Content: "OUT:sub2-physical", Mode: 0644, Sec: 1400000023},
	// an external directory whose walk fails part-way: two files, then a link to nothing
	{Path: "x/y/faulty/a.tf", Kind: "file", Content: "OUT:faulty-a", Mode: 0644, Sec: 1400000008},
	{Path: "x/y/faulty/b.tf", Kind: "file", Content: "OUT:faulty-b", Mode: 0644, Sec: 1400000009},
	{Path: "x/y/faulty/zz", Kind: "symlink", Target: "missing"},
}

// NestedOutside adds links inside the external directories (reached only when
// an external directory is dereferenced).
var NestedOutside = fsx.Tree{
	{Path: "ext/d/tofile", Kind: "symlink", Target: "g"},
	{Path: "ext/d/up", Kind: "symlink", Target: "../f"},
	{Path: "ext/d/far", Kind: "symlink", Target: "{R}/x/y/z/ext2/k"},
	{Path: "ext/d/e/updir", Kind: "symlink", Target: "../../../x/y/z/ext2"},
	{Path: "ext/d/absin", Kind: "symlink", Target: "{R}/ext/d/g"},
	{Path: "ext/d/reenter", Kind: "symlink", Target: "../d/g"},
	{Path: "ext/d/e/reenter2", Kind: "symlink", Target: "../../d/e/h"},
	{Path: "ext/d/absdir", Kind: "symlink", Target: "{R}/ext/d/e"},
}

// Build turns specs into a tree; link targets are rendered once all paths are known.
func build(specs []spec, cfg Config) fsx.Tree {
	needDot := false
	dirs := []string{""}
	have := map[string]string{}
	var nodes fsx.Tree
	for _, s := range specs {
		parent := dirs[s.Parent%len(dirs)]
		if strings.Count(parent, "/") >= 4 {
			parent = dirs[0]
		}
		p := s.Name
		if parent != "" {
			p = parent + "/" + s.Name
		}
		if _, dup := have[p]; dup {
			continue
		}
		if len(p) > 900 {
			continue
		}
		have[p] = s.Kind
		n := fsx.Node{Path: p, Kind: s.Kind, Mode: s.Mode, Sec: s.Sec, Nsec: s.Nsec, Content: s.Content}
		if s.Kind == "dir" {
			dirs = append(dirs, p)
		}
		if s.Kind == "symlink" {
			n.Target = s.Intent + "\x00" // rendered below
			n.Mode = uint32(s.Pick)
		}
		if s.Kind == "file" && s.Intent == "hardlink" {
			n.Target = "\x00hardlink"
			n.Sec = int64(s.Pick)
		}
		nodes = append(nodes, n)
	}
	// second names: a file marked as a hard link becomes one if an ordinary file precedes it
	{
		var plain []string
		for i := range nodes {
			n := &nodes[i]
			if n.Kind != "file" {
				continue
			}
			if n.Target == "\x00hardlink" {
				pick := int(n.Sec)
				n.Target, n.Sec = "", 1500000000
				if len(plain) > 0 {
					n.Kind, n.Target, n.Content, n.Mode, n.Sec, n.Nsec = "hardlink", plain[pick%len(plain)], "", 0, 0, 0
				}
				continue
			}
			plain = append(plain, n.Path)
		}
	}
	var files, ds, links []string
	for _, n := range nodes {
		switch n.Kind {
		case "file":
			files = append(files, n.Path)
		case "dir":
			ds = append(ds, n.Path)
		case "symlink":
			links = append(links, n.Path)
		}
	}
	for i := range nodes {
		n := &nodes[i]
		if n.Kind != "symlink" {
			continue
		}
		intent := strings.TrimSuffix(n.Target, "\x00")
		pick := int(n.Mode)
		n.Mode = 0
		dir := path.Dir(n.Path)
		if dir == "." {
			dir = ""
		}
		depth := 0
		if dir != "" {
			depth = strings.Count(dir, "/") + 1
		}
		ups := strings.Repeat("../", depth)
		rel := func(to string) string {
			// relative path from dir to `to` (both relative to the root)
			if dir == "" {
				return to
			}
			ds := strings.Split(dir, "/")
			ts := strings.Split(to, "/")
			i := 0
			for i < len(ds) && i < len(ts)-1 && ds[i] == ts[i] {
				i++
			}
			return strings.Repeat("../", len(ds)-i) + strings.Join(ts[i:], "/")
		}
		switch intent {
		case "file":
			if len(files) == 0 {
				n.Target = "missing-target"
			} else {
				n.Target = rel(files[pick%len(files)])
			}
		case "dotslash":
			if len(files) == 0 {
				n.Target = "./missing-target"
			} else {
				n.Target = "./" + rel(files[pick%len(files)])
			}
		case "dir":
			if len(ds) == 0 {
				n.Target = "."
			} else {
				n.Target = rel(ds[pick%len(ds)])
			}
		case "dangling":
			n.Target = []string{"missing", "./missing/deeper", "nothing.txt", "..\\..\\ext\\f", "back\\slash"}[pick%5]
		case "chain":
			others := []string{}
			for _, l := range links {
				if l != n.Path {
					others = append(others, l)
				}
			}
			if len(others) == 0 {
				n.Target = "missing-chain"
			} else {
				n.Target = rel(others[pick%len(others)])
			}
		case "updown":
			// goes up to the root and down again (still in-tree)
			if len(files) == 0 {
				n.Target = ups + "missing"
			} else {
				n.Target = ups + files[pick%len(files)]
			}
			if depth == 0 {
				n.Target = "./" + n.Target
			}
		case "out-rel-file":
			n.Target = ups + "../" + []string{"ext/f", "ext/d/g", "x/y/z/ext2/k", "ext/chain", "ext/chain2", "ext/dl/../k2"}[pick%6]
		case "out-rel-dir":
			n.Target = ups + "../" + []string{"ext/d", "ext", "x/y/z/ext2", "ext/dirchain", "ext/d/e", "x/y/faulty", "ext/dl/../sub2"}[pick%7]
		case "out-abs-file":
			n.Target = "{R}/" + []string{"ext/f", "ext/d/g", "x/y/z/ext2/k", "ext/chain"}[pick%4]
		case "out-abs-dir":
			n.Target = "{R}/" + []string{"ext/d", "x/y/z/ext2", "ext/dirchain", "x/y/faulty"}[pick%4]
		case "sibling-prefix":
			n.Target = []string{ups + "../src-evil/secret", "{R}/src-evil/secret", ups + "../src-evil", "{R}/src-evil"}[pick%4]
		case "in-abs":
			if len(files) == 0 {
				n.Target = "{R}/src"
			} else {
				n.Target = "{R}/src/" + files[pick%len(files)]
			}
		case "out-chain":
			n.Target = ups + "../ext/" + []string{"chain", "chain2", "dirchain"}[pick%3]
		case "out-dangling":
			n.Target = []string{ups + "../ext/nothing", "{R}/nowhere", ups + "../../../nowhere"}[pick%3]
		case "out-via-dotlink":
			// reads as a path inside the tree; leaves it by way of an in-tree link to "." (added below)
			n.Target = ups + "zz-dot/../" + []string{"ext/f", "ext/d", "ext/d/g", "src-evil/secret", "nowhere", "ext/nothing-here"}[pick%6]
			needDot = true
		case "exact-parent":
			// exactly the directory that contains the source directory
			n.Target = strings.TrimSuffix(ups+"..", "/")
			if pick%3 == 0 {
				n.Target = "{R}"
			}
		case "exact-root":
			// exactly the source directory itself
			n.Target = strings.TrimSuffix(ups, "/")
			if n.Target == "" {
				n.Target = "."
			}
			if pick%3 == 0 {
				n.Target = "{R}/src"
			}
		case "climb-by-name":
			// in-tree on disk only because the root is called "src"
			if len(files) == 0 {
				n.Target = ups + "../src"
			} else {
				n.Target = ups + "../src/" + files[pick%len(files)]
			}
			// the climb may be hidden behind a leading "./" or a name that is left again
			switch (pick / 7) % 3 {
			case 1:
				n.Target = "./" + n.Target
			case 2:
				n.Target = "zz/../" + n.Target
			}
		default:
			n.Target = "missing"
		}
	}
	if needDot {
		if _, dup := have["zz-dot"]; !dup {
			nodes = append(nodes, fsx.Node{Path: "zz-dot", Kind: "symlink", Target: "."})
		}
	}
	return nodes
}

// Gen draws a tree.
func Gen(t *rapid.T, cfg Config) fsx.Tree {
	if cfg.MaxNodes == 0 {
		cfg.MaxNodes = 25
	}
	specs := rapid.SliceOfN(genSpec(cfg), 0, cfg.MaxNodes).Draw(t, "nodes")
	return build(specs, cfg)
}

// Features summarises what a tree contains (for non-trivial classification).
type Features struct {
	EmptyDir, OddMode, FracTime, Link, LongOrNonASCII, Special, EmptyFile, OutLink, DirLink bool
}

func Describe(tr fsx.Tree) Features {
	var f Features
	hasChild := map[string]bool{}
	kinds := map[string]string{}
	for _, n := range tr {
		kinds[n.Path] = n.Kind
		if d := path.Dir(n.Path); d != "." {
			hasChild[d] = true
		}
	}
	for _, n := range tr {
		switch n.Kind {
		case "dir":
			if !hasChild[n.Path] {
				f.EmptyDir = true
			}
			if n.Mode != 0755 && n.Mode != 0 {
				f.OddMode = true
			}
		case "file":
			if n.Mode != 0644 && n.Mode != 0 {
				f.OddMode = true
			}
			if n.Content == "" {
				f.EmptyFile = true
			}
		case "symlink":
			f.Link = true
			if strings.Contains(n.Target, "{R}") || strings.Contains(n.Target, "ext") || strings.Contains(n.Target, "src-evil") {
				f.OutLink = true
			}
		case "fifo", "socket", "chardev":
			f.Special = true
		}
		if n.Nsec != 0 {
			f.FracTime = true
		}
		if len(n.Path) > 100 {
			f.LongOrNonASCII = true
		}
		for _, r := range n.Path {
			if r > 127 {
				f.LongOrNonASCII = true
			}
		}
	}
	return f
}
