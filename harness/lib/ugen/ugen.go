// Package ugen: hostile-archive cases for Unpack (C01, C04, C12b, C19) — the
// case type, the arena around dst, and the rapid generators.
package ugen

import (
	"bytes"
	"io"
	"os"
	"path"
	"path/filepath"
	"strings"

	"pgregory.net/rapid"

	"verif/lib/fsx"
	"verif/lib/tarx"
)

// Fault describes what happens to the byte stream handed to Unpack.
type Fault struct {
	Kind string `json:"kind"` // none | truncate | readerr
	Pm   int    `json:"pm"`   // position in per-mille of the stream length
}

// Case is one Unpack experiment.
type Case struct {
	Pre      fsx.Tree     `json:"pre,omitempty"` // content of dst before Unpack (files and dirs only)
	Spelling string       `json:"spelling"`      // clean | slash | vialink | dstlink | dstlink-slash | rel-dot | rel-dotslash | rel-name | rel-updown
	Entries  []tarx.Entry `json:"entries"`
	Fault    Fault        `json:"fault"`
	Allow    []string     `json:"allow,omitempty"` // AllowSymlinkTarget values ({R}, {DST} placeholders)
}

// Arena is the directory structure around dst:
//
//	R/c0  R/l1/c1  R/l1/l2/c2  R/l1/alias -> l2
//	R/l1/l2/l3/{c3, lnk -> outside/f, dst/, dst-evil/x, dstX, dst.bak/y, outside/{f,d/g}}
type Arena struct {
	R       string // physical scratch root (included in the snapshot)
	Dst     string // physical, clean path of dst
	Spelled string // the spelling handed to Unpack
	Cwd     string // working directory for the call ("" = leave alone): relative spellings
	Vars    map[string]string
	cleanup func()
}

const dstRel = "l1/l2/l3/dst"

var arenaTree = fsx.Tree{
	{Path: "c0", Kind: "file", Content: "OUT:c0", Mode: 0600, Sec: 1000000000},
	{Path: "l1/c1", Kind: "file", Content: "OUT:c1", Mode: 0444, Sec: 1100000000, Nsec: 5},
	{Path: "l1/l2/c2", Kind: "file", Content: "OUT:c2", Mode: 0640, Sec: 1200000000},
	{Path: "l1/alias", Kind: "symlink", Target: "l2"},
	{Path: "l1/l2/l3/c3", Kind: "file", Content: "OUT:c3", Mode: 0755, Sec: 1300000000},
	{Path: "l1/l2/l3/lnk", Kind: "symlink", Target: "outside/f"},
	{Path: "l1/l2/l3/dst", Kind: "dir", Mode: 0755},
	{Path: "l1/l2/l3/dst2", Kind: "dir", Mode: 0755, Sec: 1245000000},
	{Path: "l1/l2/l3/dst-evil", Kind: "dir", Mode: 0750, Sec: 1250000000},
	{Path: "l1/l2/l3/dst-evil/x", Kind: "file", Content: "OUT:evil-x", Mode: 0604, Sec: 1260000000},
	{Path: "l1/l2/l3/dstX", Kind: "file", Content: "OUT:dstX", Mode: 0666, Sec: 1270000000},
	{Path: "l1/l2/l3/dst.bak", Kind: "dir", Mode: 0700, Sec: 1280000000},
	{Path: "l1/l2/l3/dst.bak/y", Kind: "file", Content: "OUT:bak-y", Mode: 0400, Sec: 1290000000},
	{Path: "l1/l2/l3/outside", Kind: "dir", Mode: 0711, Sec: 1310000000},
	{Path: "l1/l2/l3/outside/f", Kind: "file", Content: "OUT:outside-f", Mode: 0644, Sec: 1320000000},
	{Path: "l1/l2/l3/outside/d", Kind: "dir", Mode: 0555, Sec: 1330000000},
	{Path: "l1/l2/l3/outside/d/g", Kind: "file", Content: "OUT:outside-g", Mode: 0440, Sec: 1340000000},
	{Path: "l1/l2/l3/a", Kind: "file", Content: "OUT:sibling-a", Mode: 0644, Sec: 1350000000},
	{Path: "l1/l2/a", Kind: "dir", Mode: 0755, Sec: 1360000000},
	{Path: "l1/l2/a/b", Kind: "file", Content: "OUT:up2-a-b", Mode: 0644, Sec: 1370000000},
}

// NewArena builds the arena for a case.
func NewArena(c Case) (*Arena, error) {
	r, cleanup := fsx.Scratch("arena-")
	a := &Arena{R: r, cleanup: cleanup}
	a.Dst = filepath.Join(r, filepath.FromSlash(dstRel))
	a.Vars = map[string]string{"R": r, "DST": a.Dst}
	if err := fsx.Materialise(r, arenaTree, a.Vars); err != nil {
		cleanup()
		return nil, err
	}
	if len(c.Pre) > 0 {
		if err := fsx.Materialise(a.Dst, c.Pre, a.Vars); err != nil {
			cleanup()
			return nil, err
		}
	}
	switch c.Spelling {
	case "slash":
		a.Spelled = a.Dst + "/"
	case "vialink":
		a.Spelled = filepath.Join(r, "l1", "alias", "l3", "dst")
	case "dstlink", "dstlink-slash":
		// the destination path is itself a symlink to the directory; the link is an
		// entry of dst's parent and belongs to the observed outside
		if err := os.Symlink("dst", filepath.Join(filepath.Dir(a.Dst), "dstlink")); err != nil {
			cleanup()
			return nil, err
		}
		a.Spelled = filepath.Join(filepath.Dir(a.Dst), "dstlink")
		if c.Spelling == "dstlink-slash" {
			a.Spelled += "/"
		}
	case "absent":
		// the destination does not exist yet (Unpack creates it)
		if len(c.Pre) == 0 {
			os.Remove(a.Dst)
		}
		a.Spelled = a.Dst
	case "abs-doubleslash":
		a.Spelled = filepath.Dir(a.Dst) + "//dst"
	case "abs-dots":
		a.Spelled = filepath.Dir(a.Dst) + "/./dst/../dst/."
	case "rel-dot":
		a.Spelled, a.Cwd = ".", a.Dst
	case "rel-dotslash":
		a.Spelled, a.Cwd = "./", a.Dst
	case "rel-name":
		a.Spelled, a.Cwd = "dst", filepath.Dir(a.Dst)
	case "rel-updown":
		a.Spelled, a.Cwd = "../dst", a.Dst
	default:
		a.Spelled = a.Dst
	}
	return a, nil
}

// SpelledAbs is the spelling as an absolute path (unclean parts kept).
func (a *Arena) SpelledAbs() string {
	if a.Cwd == "" || filepath.IsAbs(a.Spelled) {
		return a.Spelled
	}
	return a.Cwd + "/" + a.Spelled
}

// Enter changes into the working directory the spelling needs and returns the way back.
func (a *Arena) Enter() func() {
	if a.Cwd == "" {
		return func() {}
	}
	old, _ := os.Getwd()
	os.Chdir(a.Cwd)
	return func() { os.Chdir(old) }
}

func (a *Arena) Close() { a.cleanup() }

// SnapshotOutside observes everything in the arena except dst and what is below it.
func (a *Arena) SnapshotOutside() (map[string]fsx.Entry, error) {
	return fsx.Snapshot(a.R, func(rel string) bool { return rel == dstRel })
}

// Stream renders the archive and applies the fault plan.
func (c Case) Stream(vars map[string]string) (io.Reader, []byte, error) {
	b, err := tarx.Build(c.Entries, vars)
	if err != nil {
		return nil, nil, err
	}
	switch c.Fault.Kind {
	case "truncate":
		at := len(b) * c.Fault.Pm / 1000
		return tarx.NewFaultReader(b, at, true, 0), b, nil
	case "readerr":
		at := len(b) * c.Fault.Pm / 1000
		return tarx.NewFaultReader(b, at, false, 0), b, nil
	}
	return bytes.NewReader(b), b, nil
}

// LexicalTarget is where a link entry named `name` with target `target`
// points when both are read as text relative to dst (no file system access).
func LexicalTarget(dst, name, target string) string {
	if filepath.IsAbs(target) {
		return filepath.Clean(target)
	}
	n := strings.TrimPrefix(name, "/")
	return filepath.Join(filepath.Dir(filepath.Join(dst, n)), target)
}

// ---------------------------------------------------------------------------
// generators

var simpleSegs = []string{"a", "b", "d", "l", "m"}
var hostileSegs = []string{"a", "b", "d", "l", "m", ".", "..", "", "dst", "dst-evil", "..."}

var escapeNames = []string{
	"../dst-evil/x", "../dst-evil/new", "../dstX", "../dst.bak/y", "../dst.bak/new", "../c3", "../../c2", "../../../c1",
	"../../../../c0", "../outside/f", "../outside/new", "../newsibling", "../dst-evil", "a/../../dst-evil/x", "./../dst-evil/x",
	"..\\dst-evil\\x", "a\\..\\..\\dst-evil\\new", "..\\newsibling", "a/..\\../x", // backslashes are name characters here, not separators
	"..", "../", "../.", "a/../..", "dst/../../dst-evil/x", "/../dst-evil/x", "//../dst-evil/x", "../dst/../dst-evil/x",
	"{R}/l1/c1", "{DST}/../dst-evil/x", "/{R}/c0", "{R}/l1/l2/l3/outside/new", "../a", "../../a/b", "../dst",
}

var escapeTargets = []string{
	"..", "../", "../..", "../dst-evil", "../dst-evil/x", "../dstX", "../outside", "../outside/f", "../dst.bak", "../c3",
	"../../c2", "{R}", "{R}/l1/l2/l3/outside", "{R}/l1/l2/l3/outside/f", "{R}/l1/l2/l3/dst-evil", "/", "/etc", "/tmp",
	"{DST}/..", "{DST}/../dst-evil", "{DST}-evil", "{DST}-evil/x", "{DST}X", "a/../..", "./..", "../dst-evil/../dst-evil/x",
	"../a", "../../a", "../lnk",
	// for links whose entry name is absolute: up once, then down dst's own absolute path
	"..{DST}/x", "..{DST}", "../..{DST}/a", "..{DST}/../dst-evil/x",
}

var insideTargets = []string{
	".", "a", "b", "d", "l", "m", "a/b", "d/a", "./a", "a/..", "a/../b", "l/..", "l/../a", "m/..", "l/m", "d/..", "{DST}", "{DST}/a", "{DST}/d/b",
	"nonexistent", "a/nonexistent", "l", "m/a",
}

var modes = []int64{0644, 0755, 0600, 0444, 0000, 0777, 04755, 01777, 0200, 0500, 0555, 02750, 040700, 0100600, 0120777, 060644}

func genSimpleName(t *rapid.T, label string) string {
	n := rapid.IntRange(1, 3).Draw(t, label+"depth")
	parts := make([]string, n)
	for i := range parts {
		parts[i] = rapid.SampledFrom(simpleSegs).Draw(t, label+"seg")
	}
	return strings.Join(parts, "/")
}

func genName(t *rapid.T, label string) string {
	k := rapid.IntRange(0, 99).Draw(t, label+"class")
	switch {
	case k < 58:
		return genSimpleName(t, label)
	case k < 64:
		n := rapid.IntRange(1, 5).Draw(t, label+"hn")
		parts := make([]string, n)
		for i := range parts {
			parts[i] = rapid.SampledFrom(hostileSegs).Draw(t, label+"hseg")
		}
		return strings.Join(parts, "/")
	case k < 72:
		return rapid.SampledFrom(escapeNames).Draw(t, label+"esc")
	case k < 76:
		return genSimpleName(t, label)
	case k < 82:
		return "/" + genSimpleName(t, label)
	case k < 88:
		return "./" + genSimpleName(t, label)
	case k < 92:
		return genSimpleName(t, label) + "/"
	case k < 95:
		// write-through attempts: a missing first component followed by ".."
		return "zz/../" + genSimpleName(t, label)
	case k < 97:
		return strings.Repeat("n", rapid.IntRange(90, 130).Draw(t, label+"long")) + "/" + genSimpleName(t, label)
	default:
		return rapid.SampledFrom([]string{".", "./", "/", "a//b", "a/./b", "a/b/..", "a/b/../..", "a/b/../../..", "l/../../dst-evil/x", "m/../../outside/new"}).Draw(t, label+"odd")
	}
}

func genTarget(t *rapid.T, label string, wantEscape int) string {
	k := rapid.IntRange(0, 99).Draw(t, label+"tclass")
	switch {
	case k < wantEscape:
		return rapid.SampledFrom(escapeTargets).Draw(t, label+"tesc")
	case k < wantEscape+38:
		return rapid.SampledFrom(insideTargets).Draw(t, label+"tin")
	case k < wantEscape+48:
		// a pure run of "..": inside or outside depending on where the link sits
		return strings.TrimSuffix(strings.Repeat("../", rapid.IntRange(1, 4).Draw(t, label+"ups")), "/") +
			rapid.SampledFrom([]string{"", "", "/a", "/dst-evil/x", "/outside/f"}).Draw(t, label+"upstail")
	default:
		// compose: through another (possible) link name, then up
		first := rapid.SampledFrom(simpleSegs).Draw(t, label+"t1")
		rest := rapid.SampledFrom([]string{"..", "../..", "../dst-evil", "../dst-evil/x", "../outside/f", ".", "a", "../a", "../../dst-evil/x", "../l", "../m/.."}).Draw(t, label+"t2")
		return first + "/" + rest
	}
}

func genType(t *rapid.T, label string, linkWeight int) string {
	k := rapid.IntRange(0, 99).Draw(t, label+"type")
	switch {
	case k < linkWeight:
		return "symlink"
	case k < linkWeight+(100-linkWeight)*55/100:
		return "file"
	case k < linkWeight+(100-linkWeight)*88/100:
		return "dir"
	case k < linkWeight+(100-linkWeight)*90/100:
		return "hardlink"
	case k < linkWeight+(100-linkWeight)*91/100:
		return "fifo"
	case k < linkWeight+(100-linkWeight)*92/100:
		return "char"
	case k < linkWeight+(100-linkWeight)*95/100:
		return "xglobal"
	case k < linkWeight+(100-linkWeight)*98/100:
		return "filea"
	default:
		return "raw:" + rapid.SampledFrom([]string{"Z", "7", "S", "D", "V", "M", "N", "\x00"}).Draw(t, label+"rawflag")
	}
}

// GenEntry draws one hostile entry.
func GenEntry(t *rapid.T, label string, linkWeight, escapeWeight int) tarx.Entry {
	e := tarx.Entry{
		Name: genName(t, label),
		Type: genType(t, label, linkWeight),
		Mode: rapid.SampledFrom(modes).Draw(t, label+"mode"),
		Sec:  rapid.SampledFrom([]int64{0, 1, 1400000000, 1500000000, 4102444800}).Draw(t, label+"sec"),
	}
	switch e.Type {
	case "file", "filea":
		e.Body = rapid.SampledFrom([]string{"", "IN:1", "IN:2", "IN:payload-3"}).Draw(t, label+"body")
	case "symlink", "hardlink":
		e.Link = genTarget(t, label, escapeWeight)
	case "xglobal":
		if rapid.Bool().Draw(t, label+"gname") {
			e.Name = "pax_global_header"
		}
		e.PAX = map[string]string{"comment": "x"}
	}
	if strings.HasPrefix(e.Type, "raw:") {
		e.Raw = true
		e.Body = "IN:raw"
	} else if rapid.IntRange(0, 9).Draw(t, label+"rawhdr") == 0 {
		e.Raw = true
	} else {
		e.Format = rapid.SampledFrom([]string{"", "", "ustar", "pax", "gnu"}).Draw(t, label+"fmt")
		if e.Format == "ustar" && (len(e.Name) > 90 || e.Sec > 8589934591) {
			e.Format = ""
		}
	}
	return e
}

var preTrees = []fsx.Tree{
	nil,
	nil,
	{{Path: "a", Kind: "file", Content: "PRE:a", Mode: 0644, Sec: 1111111111}},
	{{Path: "a", Kind: "dir", Mode: 0755}, {Path: "a/b", Kind: "file", Content: "PRE:a/b", Mode: 0444, Sec: 1111111112}},
	{{Path: "d", Kind: "dir", Mode: 0500, Sec: 1111111113}, {Path: "l", Kind: "file", Content: "PRE:l", Mode: 0400}},
	{{Path: "m", Kind: "dir", Mode: 0755}, {Path: "m/a", Kind: "dir", Mode: 0755}, {Path: "b", Kind: "file", Content: "PRE:b", Mode: 0600}},
	// names inside dst that are symlinks to places outside of it (left by whoever used the directory before)
	{{Path: "d", Kind: "symlink", Target: "../outside/d"}, {Path: "a", Kind: "symlink", Target: "../outside"}, {Path: "l", Kind: "symlink", Target: "../outside/f"},
		{Path: "b", Kind: "symlink", Target: "../outside/not-there"}, {Path: "m", Kind: "dir", Mode: 0755}, {Path: "m/a", Kind: "symlink", Target: "../../dst-evil"}},
	// names inside dst that are second names (hard links) of files outside of it
	{{Path: "a", Kind: "hardlink", Target: "../outside/f"}, {Path: "d", Kind: "dir", Mode: 0755}, {Path: "d/b", Kind: "hardlink", Target: "../dst-evil/x"}, {Path: "l", Kind: "hardlink", Target: "../a"}},
}

// PreHardLinks lists, relative to the arena root, the outside files that have a
// second name inside dst before Unpack runs: replacing such a name changes the
// link count and the change time of the file, nothing else.
func (c Case) PreHardLinks() []string {
	var out []string
	for _, n := range c.Pre {
		if n.Kind == "hardlink" {
			out = append(out, path.Join(dstRel, n.Target))
		}
	}
	return out
}

// GenCase draws a whole experiment. linkWeight = % of entries that are
// symlinks, escapeWeight = % of link targets drawn from the escaping pool.
func GenCase(t *rapid.T, linkWeight, escapeWeight int, withFaults bool, withAllow bool) Case {
	c := Case{}
	c.Pre = rapid.SampledFrom(preTrees).Draw(t, "pre")
	sp := rapid.IntRange(0, 14).Draw(t, "spelling")
	switch {
	case sp > 11:
		c.Spelling = rapid.SampledFrom([]string{"rel-dot", "rel-dotslash", "rel-name", "rel-updown", "abs-doubleslash", "abs-dots"}).Draw(t, "relspelling")
	case sp < 7:
		c.Spelling = "clean"
	case sp < 8:
		c.Spelling = "slash"
	case sp < 10:
		c.Spelling = "vialink"
	case sp < 11:
		c.Spelling = "dstlink"
	default:
		c.Spelling = "dstlink-slash"
	}
	c.Entries = rapid.SliceOfN(rapid.Custom(func(t *rapid.T) tarx.Entry {
		return GenEntry(t, "", linkWeight, escapeWeight)
	}), 1, 8).Draw(t, "entries")
	planted := false
	divertAllow := ""
	if rapid.IntRange(0, 99).Draw(t, "scenario?") < 18 {
		var hint string
		c.Entries, hint = scenario(t, c.Entries)
		planted = true
		if hint != "" && withAllow {
			divertAllow = hint
		}
	}
	rootLinkAllow := ""
	if planted && len(c.Entries) > 0 && c.Entries[0].Type == "symlink" && Normalised(c.Entries[0].Name) == "" {
		// family 8: mostly into a destination that does not exist yet, with the link's target allow-listed
		if rapid.IntRange(0, 3).Draw(t, "absent8") > 0 {
			c.Spelling, c.Pre = "absent", nil
		}
		if strings.Contains(c.Entries[0].Link, "outside") && rapid.IntRange(0, 3).Draw(t, "allow8") > 0 {
			rootLinkAllow = c.Entries[0].Link
		}
	}
	// cooperation: later entries reuse, extend or shorten the names of earlier
	// ones, and link targets pass through earlier entries
	coop := rapid.SliceOfN(rapid.IntRange(0, 99), 8, 8).Draw(t, "coop")
	pick := rapid.SliceOfN(rapid.IntRange(0, 7), 8, 8).Draw(t, "pick")
	if planted && pick[0]%2 == 0 {
		coop = []int{99, 99, 99, 99, 99, 99, 99, 99} // leave the planted family as drawn
	}
	for i := 1; i < len(c.Entries) && i < 8; i++ {
		j := pick[i] % i
		// prefer an earlier link as the partner
		for k := 0; k < i; k++ {
			if c.Entries[(j+k)%i].Type == "symlink" {
				j = (j + k) % i
				break
			}
		}
		base := strings.TrimSuffix(c.Entries[j].Name, "/")
		if base == "" || c.Entries[j].Type == "xglobal" {
			continue
		}
		p2 := pick[(i+1)%8]
		other := strings.Trim(c.Entries[pick[(i+2)%8]%i].Name, "/")
		switch {
		case c.Entries[i].Type == "symlink" && coop[i] < 28:
			depth := strings.Count(strings.Trim(c.Entries[i].Name, "/"), "/")
			c.Entries[i].Link = strings.Repeat("../", depth) + strings.TrimPrefix(base, "/") + "/" +
				[]string{"..", "../..", "../dst-evil/x", "x", "../outside/f", "../dst-evil", "../a", "."}[p2%8]
		case coop[i] < 30:
			c.Entries[i].Name = base
		case coop[i] < 41:
			c.Entries[i].Name = base + "/" + simpleSegs[p2%len(simpleSegs)] + []string{"", "", "/y"}[pick[(i+3)%8]%3]
		case coop[i] < 45:
			if k := strings.LastIndex(base, "/"); k > 0 {
				c.Entries[i].Name = base[:k]
			}
		case coop[i] < 51:
			c.Entries[i].Name = "zz/../" + strings.TrimPrefix(base, "/") + []string{"", "/x", "/a"}[p2%3]
		case coop[i] < 57 && other != "" && !strings.Contains(other, ".."):
			// below an earlier (link) entry, along a path that exists elsewhere in dst
			c.Entries[i].Name = strings.TrimPrefix(base, "/") + "/" + other + []string{"", "/x", "/esc", "/esc/y"}[p2%4]
		}
	}
	c.Fault.Kind = "none"
	if withFaults {
		switch rapid.IntRange(0, 9).Draw(t, "fault") {
		case 0:
			c.Fault = Fault{Kind: "truncate", Pm: rapid.IntRange(0, 1000).Draw(t, "pm")}
		case 1:
			c.Fault = Fault{Kind: "readerr", Pm: rapid.IntRange(0, 1000).Draw(t, "pm")}
		}
	}
	if withAllow && rootLinkAllow != "" {
		c.Allow = []string{rootLinkAllow}
	} else if divertAllow != "" {
		c.Allow = []string{divertAllow}
	} else if withAllow && rapid.IntRange(0, 3).Draw(t, "allow?") == 0 {
		c.Allow = []string{rapid.SampledFrom([]string{"{R}/l1/l2/l3/outside", "../outside", "{R}/l1/l2/l3/outside/f", "../dst-evil", "/etc", "{R}/l1/l2/l3/out", "../out", "../dst-ev", "../outside/", "../dst", "{DST}", "../outside/d"}).Draw(t, "allow")}
	}
	return c
}

// Normalised maps an entry name to its path below dst ("" = dst itself).
func Normalised(name string) string {
	return strings.TrimPrefix(filepath.Clean("/"+name), "/")
}

// Exists is a tiny helper for harness code.
func Exists(p string) bool {
	_, err := os.Lstat(p)
	return err == nil
}

// scenario plants one of the known attack families (with drawn variations)
// in front of / among the randomly drawn entries, so that their neighbourhood
// is explored far more often than independent draws would reach it.
func scenario(t *rapid.T, rest []tarx.Entry) (entries []tarx.Entry, allowHint string) {
	seg := func(l string) string { return rapid.SampledFrom(simpleSegs).Draw(t, l) }
	ent := func(name, typ, link string) tarx.Entry {
		e := tarx.Entry{Name: name, Type: typ, Link: link, Mode: rapid.SampledFrom(modes).Draw(t, "smode"),
			Sec: rapid.SampledFrom([]int64{0, 1400000000, 4102444800}).Draw(t, "ssec"), Raw: rapid.Bool().Draw(t, "sraw")}
		if typ == "file" {
			e.Body = "IN:scenario"
		}
		return e
	}
	third := func(name string) tarx.Entry {
		switch rapid.IntRange(0, 5).Draw(t, "third") {
		case 0:
			return ent(name, "file", "")
		case 1:
			return ent(name, "dir", "")
		case 4:
			// entry kinds for which nothing is extracted still have their parent directories made
			e := ent(name, rapid.SampledFrom([]string{"xglobal", "xglobal", "fifo", "hardlink", "raw:Z"}).Draw(t, "tkind"), "")
			if e.Type == "hardlink" {
				e.Link = "a"
			}
			return e
		default:
			ups := strings.TrimSuffix(strings.Repeat("../", rapid.IntRange(1, 4).Draw(t, "tups")), "/")
			return ent(name, "symlink", ups+rapid.SampledFrom([]string{"", "/dst-evil/x", "/outside", "/a"}).Draw(t, "ttail"))
		}
	}
	var plant []tarx.Entry
	switch rapid.IntRange(0, 10).Draw(t, "family") {
	case 10: // a target that reads as an allow-listed place but, by way of a link of the archive, leads somewhere else
		a, b := seg("a"), seg("b")
		if a == b {
			b = b + "2"
		}
		v := rapid.IntRange(0, 3).Draw(t, "divert")
		allowHint = []string{"../outside", "../outside/", "{R}/l1/l2/l3/outside", "../dst-evil"}[v]
		tail := []string{"/../../outside/f", "/../../outside/d/g", "/../../outside/f", "/../../dst-evil/x"}[v]
		// read as text the target is <parent of dst>/outside/...: the first ".." only undoes the link name
		plant = []tarx.Entry{ent(a, "symlink", "."), ent(b, "symlink", a+tail)}
		if rapid.IntRange(0, 2).Draw(t, "abs10") == 0 {
			// the same with an absolute target that runs through the link
			plant[1].Link = "{DST}/" + a + tail
		}
		if rapid.Bool().Draw(t, "honest10") {
			plant = append(plant, ent(seg("c")+"3", "symlink", strings.TrimPrefix(tail, "/../")))
		}
		if rapid.Bool().Draw(t, "swap10") {
			plant[0], plant[1] = plant[1], plant[0]
		}
	case 9: // an entry whose name passes through a link of the archive and then steps up: "l -> ." and "l/../x"
		l := seg("l")
		linkName, target := l, "."
		if rapid.Bool().Draw(t, "deep9") {
			linkName, target = seg("n")+"/"+l, ".."
		}
		plant = []tarx.Entry{ent(linkName, "symlink", target),
			third(linkName + "/../" + rapid.SampledFrom([]string{"x", "a", "../dst-evil/x", "../outside/new", "../a", "x/y"}).Draw(t, "behind9"))}
	case 8: // an entry for the archive root that is not a directory (meant for a destination that does not exist yet)
		rootName := rapid.SampledFrom([]string{"./", ".", "/", "a/.."}).Draw(t, "rootname8")
		kind := rapid.SampledFrom([]string{"symlink", "symlink", "file", "hardlink"}).Draw(t, "rootkind8")
		first := ent(rootName, kind, "")
		if kind == "symlink" {
			first.Link = rapid.SampledFrom([]string{"../outside", "{R}/l1/l2/l3/outside", "..", "../dst-evil", "dst-evil"}).Draw(t, "roottarget8")
		}
		plant = []tarx.Entry{first, ent(seg("f8"), "file", ""), ent(seg("d8")+"/x", "file", "")}
	case 7: // an escaping link by way of another link, inside a directory recorded without write permission
		d, a, b := seg("d"), seg("a"), seg("b")
		if a == d {
			a = a + "2"
		}
		dir := ent(d+"/", "dir", "")
		dir.Mode = rapid.SampledFrom([]int64{0555, 0500, 0755, 0111}).Draw(t, "romode")
		tail := rapid.SampledFrom([]string{"/..", "/../..", "/../dst-evil", "/../outside"}).Draw(t, "viatail7")
		plant = []tarx.Entry{dir, ent(a, "symlink", "."), ent(d+"/"+b, "symlink", "../"+a+tail)}
		if rapid.Bool().Draw(t, "dirlast") {
			plant = []tarx.Entry{plant[1], plant[2], plant[0]}
		}
	case 6: // an entry for which nothing is extracted, deep below a link that physically leaves dst for a while
		a, b := seg("a"), seg("b")
		if a == b {
			b = b + "2"
		}
		tail := rapid.SampledFrom([]string{"/..", "/../..", "/../dst-evil", "/../outside"}).Draw(t, "viatail6")
		kind := rapid.SampledFrom([]string{"xglobal", "xglobal", "fifo", "char", "hardlink", "raw:Z", "dir", "file"}).Draw(t, "kind6")
		e := ent(b+rapid.SampledFrom([]string{"/x/y", "/esc/x/y", "/x/y/"}).Draw(t, "deep6"), kind, "")
		if kind == "hardlink" {
			e.Link = a
		}
		if kind == "xglobal" {
			e.PAX = map[string]string{"comment": "x"}
		}
		plant = []tarx.Entry{ent(a, "symlink", "."), ent(b, "symlink", a+tail), e}
		if rapid.Bool().Draw(t, "alone6") {
			rest = nil
		}
	case 0: // relocation: an entry below a link, along a path that really exists elsewhere
		d, n, l := seg("d"), seg("n"), seg("l")
		linkName, linkTarget := n+"/"+l, ".."
		if rapid.Bool().Draw(t, "toplink") {
			linkName, linkTarget = l, "."
		}
		plant = []tarx.Entry{ent(d+"/", "dir", ""), ent(linkName, "symlink", linkTarget),
			third(linkName + "/" + d + "/" + seg("e") + rapid.SampledFrom([]string{"", "", "/y"}).Draw(t, "deeper"))}
	case 1: // a link made escaping by way of another link, then something at or below it
		a, b := seg("a"), seg("b")
		if a == b {
			b = b + "2"
		}
		tail := rapid.SampledFrom([]string{"/..", "/../..", "/../dst-evil/x", "/../dst-evil", "/../outside", "/" + a + "/..", "/" + a + "/" + a + "/../..", "/./" + a + "/../outside"}).Draw(t, "viatail")
		plant = []tarx.Entry{ent(a, "symlink", "."), ent(b, "symlink", a+tail),
			third(rapid.SampledFrom([]string{b, b + "/x", "zz/../" + b + "/x", "./" + b, b + "/x/y", b + "/esc/x/y"}).Draw(t, "at"))}
	case 2: // sibling-prefix target, then a file at the link's name
		l := seg("l")
		plant = []tarx.Entry{ent(l, "symlink", rapid.SampledFrom([]string{"../dst-evil/x", "../dst-evil", "{DST}-evil/x", "../dstX", "{DST}X"}).Draw(t, "sib")),
			third(rapid.SampledFrom([]string{l, l + "/new", "zz/../" + l, l + "/new/y"}).Draw(t, "at2"))}
	case 4: // a link whose entry name is absolute (the leading slash is dropped on creation)
		name := rapid.SampledFrom([]string{"/", "/", "//", "///"}).Draw(t, "slashes") + rapid.SampledFrom([]string{"l", "a/l", "a/b/l"}).Draw(t, "absname")
		tgt := rapid.SampledFrom([]string{"..{DST}/x", "..{DST}", "../..{DST}/a", "..{DST}/../dst-evil/x", "{DST}/a", "a", "../a", "../../a", "../../../a"}).Draw(t, "abstarget")
		plant = []tarx.Entry{ent(name, "symlink", tgt), third(rapid.SampledFrom([]string{"l", "l/x", "a/l", "zz/../l/x", "l/x/y"}).Draw(t, "absat"))}
	case 3: // boundary names: the cleaned name is exactly dst, or exactly dst's parent
		name := rapid.SampledFrom([]string{"..", "../", "./..", "a/../..", "../.", "/..", ".", "./", "a/..", "../dst", "../dst/", "../dst/a"}).Draw(t, "bname")
		plant = []tarx.Entry{third(name)}
		plant[0].Name = name
		if plant[0].Type == "dir" && !strings.HasSuffix(name, "/") && rapid.Bool().Draw(t, "dirslash") {
			plant[0].Name = name + "/"
		}
	default: // directory entry later turned into / preceded by a link of the same name
		d := seg("d")
		plant = []tarx.Entry{ent(d+"/", "dir", ""), ent(seg("s")+"/up", "symlink", ".."),
			ent(d, "symlink", rapid.SampledFrom([]string{"..", "s/up/..", "a/up/..", "../outside"}).Draw(t, "late"))}
		if rapid.Bool().Draw(t, "swap") {
			plant[0], plant[2] = plant[2], plant[0]
		}
	}
	// interleave with up to three of the random entries
	if len(rest) > 3 {
		rest = rest[:3]
	}
	out := append([]tarx.Entry{}, plant...)
	for _, r := range rest {
		pos := rapid.IntRange(0, len(out)).Draw(t, "pos")
		out = append(out[:pos], append([]tarx.Entry{r}, out[pos:]...)...)
	}
	return out, allowHint
}

// ---------------------------------------------------------------------------
// Sequences: several archives unpacked one after the other into the same
// destination path (the way a long-running service reuses a work directory),
// optionally emptying the destination in between.

type SeqCase struct {
	First Case   `json:"first"` // arena, spelling, pre-populated dst and the first archive
	More  []Step `json:"more"`  // the archives that follow
	// one Packer value (made with the first step's allow-list) serves every call
	SamePacker bool `json:"same_packer,omitempty"`
}

type Step struct {
	Entries []tarx.Entry `json:"entries"`
	Allow   []string     `json:"allow,omitempty"`
	Wipe    bool         `json:"wipe,omitempty"` // remove dst's content before this step
	// unpack into the second destination of the arena (l1/l2/l3/dst2) instead: the first one is then "outside"
	OtherDst bool `json:"other_dst,omitempty"`
	// the same relative spelling as before ("dst"), given from another working directory (l1/l2): another directory
	MovedCwd bool `json:"moved_cwd,omitempty"`
}

// MovedRel is the destination a step with MovedCwd names: "dst" read from l1/l2.
const MovedRel = "l1/l2/dst"

// AsCase renders a step as a Case sharing the first step's arena settings.
func (s SeqCase) AsCase(i int) Case {
	if i == 0 {
		return s.First
	}
	st := s.More[i-1]
	return Case{Spelling: s.First.Spelling, Entries: st.Entries, Allow: st.Allow, Fault: Fault{Kind: "none"}}
}

// GenSeq draws a sequence of 2-3 archives. Later archives reuse names of
// earlier ones with other entry kinds (a directory becomes a link and the
// other way round), so that what one call learnt about dst is wrong for the next.
func GenSeq(t *rapid.T) SeqCase {
	s := SeqCase{First: GenCase(t, 30, 15, false, true)}
	if s.First.Spelling == "absent" {
		s.First.Spelling = "clean"
	}
	n := rapid.IntRange(1, 2).Draw(t, "nmore")
	var earlier []tarx.Entry
	earlier = append(earlier, s.First.Entries...)
	for i := 0; i < n; i++ {
		c := GenCase(t, 40, 20, false, true)
		st := Step{Entries: c.Entries, Allow: c.Allow, Wipe: rapid.IntRange(0, 2).Draw(t, "wipe") == 0, OtherDst: rapid.IntRange(0, 3).Draw(t, "otherdst") == 0}
		// re-type some names of earlier archives
		k := rapid.IntRange(0, 3).Draw(t, "retype")
		for j := 0; j < k && len(earlier) > 0; j++ {
			e := earlier[rapid.IntRange(0, len(earlier)-1).Draw(t, "which")]
			base := strings.Trim(strings.TrimSuffix(e.Name, "/"), "/")
			if base == "" || strings.Contains(base, "..") {
				continue
			}
			top := strings.Split(base, "/")[0]
			var planted []tarx.Entry
			switch rapid.IntRange(0, 3).Draw(t, "how") {
			case 0: // the top directory of an earlier entry becomes a link that leaves dst by way of another link
				planted = []tarx.Entry{{Name: "zz-here", Type: "symlink", Mode: 0777, Link: "."},
					{Name: top, Type: "symlink", Mode: 0777, Link: "zz-here/" + rapid.SampledFrom([]string{"..", "../dst-evil", "../outside"}).Draw(t, "esc")},
					{Name: top + "/planted/x", Type: rapid.SampledFrom([]string{"file", "dir", "xglobal"}).Draw(t, "ptype"), Mode: 0644, Body: "IN:planted"}}
			case 1: // ... or an allow-listed outward link
				planted = []tarx.Entry{{Name: top, Type: "symlink", Mode: 0777, Link: "../outside"},
					{Name: top + "/planted", Type: "file", Mode: 0644, Body: "IN:planted"}}
				st.Allow = []string{"../outside"}
			case 2: // a link that an earlier archive left dangling now finds its target
				planted = []tarx.Entry{{Name: "here", Type: "symlink", Mode: 0777, Link: "."}, {Name: "a", Type: "symlink", Mode: 0777, Link: "."}}
			default: // the reverse order: this archive leaves a dangling link through a name a later one may create
				planted = []tarx.Entry{{Name: "up-" + top, Type: "symlink", Mode: 0777, Link: rapid.SampledFrom([]string{"here/..", "a/..", top + "/.."}).Draw(t, "dangling")}}
			}
			pos := rapid.IntRange(0, len(st.Entries)).Draw(t, "plantpos")
			st.Entries = append(st.Entries[:pos:pos], append(planted, st.Entries[pos:]...)...)
		}
		earlier = append(earlier, st.Entries...)
		s.More = append(s.More, st)
	}
	s.SamePacker = rapid.Bool().Draw(t, "samepacker")
	if rapid.IntRange(0, 5).Draw(t, "movedcwd?") == 0 {
		// every call names its destination "dst"; the working directory moves on before the last one
		s.First.Spelling, s.First.Pre = "rel-name", nil
		last := &s.More[len(s.More)-1]
		last.MovedCwd, last.OtherDst, last.Wipe = true, false, false
		if rapid.Bool().Draw(t, "movedsame") {
			s.SamePacker = true
		}
	}
	return s
}

const Dst2Rel = "l1/l2/l3/dst2"

// SnapshotOutsideOf observes everything in the arena except the given destination (relative to R).
func (a *Arena) SnapshotOutsideOf(rel string) (map[string]fsx.Entry, error) {
	return fsx.Snapshot(a.R, func(r string) bool { return r == rel })
}

// Wipe empties dst (keeping the directory itself).
func (a *Arena) Wipe() {
	ents, _ := os.ReadDir(a.Dst)
	for _, e := range ents {
		fsx.RemoveAll(filepath.Join(a.Dst, e.Name()))
	}
}
