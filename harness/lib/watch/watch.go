// Package watch runs cases that may crash or hang the process in a watched
// worker subprocess (same test binary, -test.run=^TestWorker$). The parent
// sends one JSON case per line and reads one JSON outcome per line; a dead or
// silent worker is diagnosed (stderr tail / SIGQUIT goroutine dump), replaced,
// and the property stays a pure function of the drawn case.
package watch

import (
	"bufio"
	"bytes"
	"encoding/json"
	"fmt"
	"io"
	"os"
	"os/exec"
	"runtime/debug"
	"strings"
	"sync"
	"syscall"
	"time"
)

// Outcome is what a worker reports for one case.
type Outcome struct {
	OK    bool   `json:"ok"`              // the call returned (value or error)
	Err   string `json:"err,omitempty"`   // error text returned by go-slug (informational)
	Panic string `json:"panic,omitempty"` // recovered panic, with stack
	Note  string `json:"note,omitempty"`
}

// Verdict is the parent's view.
type Verdict struct {
	Outcome
	Crashed   bool   // worker died without answering
	Hung      bool   // worker silent beyond the limit and its dump shows go-slug frames
	Inconcl   bool   // silent, but the dump does not implicate go-slug
	Diagnosis string // stderr tail / goroutine dump excerpt
}

type Pool struct {
	mu      sync.Mutex
	cmd     *exec.Cmd
	in      io.WriteCloser
	out     *bufio.Reader
	errBuf  *safeBuf
	limit   time.Duration
	kind    string
	started int
}

type safeBuf struct {
	mu sync.Mutex
	b  bytes.Buffer
}

func (s *safeBuf) Write(p []byte) (int, error) {
	s.mu.Lock()
	defer s.mu.Unlock()
	if s.b.Len() > 4<<20 {
		s.b.Reset()
	}
	return s.b.Write(p)
}
func (s *safeBuf) String() string { s.mu.Lock(); defer s.mu.Unlock(); return s.b.String() }

// NewPool: kind is passed to the worker in VERIF_WORKER.
func NewPool(kind string, limit time.Duration) *Pool {
	return &Pool{kind: kind, limit: limit}
}

func (p *Pool) start() error {
	exe, err := os.Executable()
	if err != nil {
		return err
	}
	cmd := exec.Command(exe, "-test.run=^TestWorker$", "-test.timeout=0")
	cmd.Env = append(os.Environ(), "VERIF_WORKER="+p.kind, "VERIF_OUT=", "GOTRACEBACK=all")
	cmd.SysProcAttr = &syscall.SysProcAttr{Setpgid: true}
	in, err := cmd.StdinPipe()
	if err != nil {
		return err
	}
	out, err := cmd.StdoutPipe()
	if err != nil {
		return err
	}
	p.errBuf = &safeBuf{}
	cmd.Stderr = p.errBuf
	if err := cmd.Start(); err != nil {
		return err
	}
	p.cmd, p.in, p.out = cmd, in, bufio.NewReaderSize(out, 1<<20)
	p.started++
	return nil
}

func (p *Pool) kill() {
	if p.cmd != nil && p.cmd.Process != nil {
		syscall.Kill(-p.cmd.Process.Pid, syscall.SIGKILL)
		p.cmd.Wait()
	}
	p.cmd = nil
}

// Close stops the worker.
func (p *Pool) Close() {
	p.mu.Lock()
	defer p.mu.Unlock()
	if p.cmd != nil {
		p.in.Close()
		done := make(chan struct{})
		go func() { p.cmd.Wait(); close(done) }()
		select {
		case <-done:
		case <-time.After(2 * time.Second):
			p.kill()
		}
		p.cmd = nil
	}
}

const marker = "@@VERIF-OUTCOME@@ "

// Do runs one case in the worker.
func (p *Pool) Do(c any) (Verdict, error) {
	p.mu.Lock()
	defer p.mu.Unlock()
	if p.cmd == nil {
		if err := p.start(); err != nil {
			return Verdict{}, fmt.Errorf("cannot start worker: %v", err)
		}
	}
	line, err := json.Marshal(c)
	if err != nil {
		return Verdict{}, err
	}
	if _, err := p.in.Write(append(line, '\n')); err != nil {
		p.kill()
		return Verdict{}, fmt.Errorf("worker pipe: %v", err)
	}
	type reply struct {
		s   string
		err error
	}
	ch := make(chan reply, 1)
	out := p.out
	go func() {
		for {
			s, err := out.ReadString('\n')
			if err != nil {
				ch <- reply{"", err}
				return
			}
			if strings.HasPrefix(s, marker) {
				ch <- reply{strings.TrimPrefix(s, marker), nil}
				return
			}
			// other stdout noise (testing framework) is ignored
		}
	}()
	select {
	case r := <-ch:
		if r.err != nil {
			// worker died
			p.cmd.Wait()
			full := p.errBuf.String()
			diag := head(full, 1500)
			if sf := slugFrames(full); sf != "" {
				diag += "\n...\n" + head(sf, 3000)
			}
			p.cmd = nil
			return Verdict{Crashed: true, Diagnosis: diag}, nil
		}
		var o Outcome
		if err := json.Unmarshal([]byte(r.s), &o); err != nil {
			p.kill()
			return Verdict{}, fmt.Errorf("bad worker reply %q: %v", r.s, err)
		}
		return Verdict{Outcome: o}, nil
	case <-time.After(p.limit):
		// suspected hang: ask for a goroutine dump, then kill
		before := len(p.errBuf.String())
		syscall.Kill(p.cmd.Process.Pid, syscall.SIGQUIT)
		time.Sleep(1500 * time.Millisecond)
		dump := p.errBuf.String()
		if len(dump) > before {
			dump = dump[before:]
		}
		p.kill()
		v := Verdict{Diagnosis: head(slugFrames(dump), 4000)}
		if strings.Contains(dump, "github.com/hashicorp/go-slug") {
			v.Hung = true
		} else {
			v.Inconcl = true
			v.Diagnosis = head(dump, 2000)
		}
		return v, nil
	}
}

func head(s string, n int) string {
	if len(s) > n {
		return s[:n] + "..."
	}
	return s
}

func tail(s string, n int) string {
	if len(s) > n {
		return s[len(s)-n:]
	}
	return s
}

// slugFrames keeps the goroutines of a dump that mention go-slug.
func slugFrames(dump string) string {
	var keep []string
	for _, g := range strings.Split(dump, "\n\n") {
		if strings.Contains(g, "github.com/hashicorp/go-slug") {
			if len(g) > 1500 {
				g = g[:1500] + "\n..."
			}
			keep = append(keep, g)
		}
		if len(keep) >= 3 {
			break
		}
	}
	return strings.Join(keep, "\n\n")
}

// Serve is the worker loop: handle is called for each case line.
func Serve(handle func(raw []byte) Outcome) {
	debug.SetMaxStack(64 << 20)
	in := bufio.NewReaderSize(os.Stdin, 1<<20)
	for {
		line, err := in.ReadBytes('\n')
		if len(line) > 0 {
			o := safeHandle(handle, line)
			b, _ := json.Marshal(o)
			fmt.Fprintf(os.Stdout, "%s%s\n", marker, b)
		}
		if err != nil {
			return
		}
	}
}

func safeHandle(handle func(raw []byte) Outcome, line []byte) (o Outcome) {
	defer func() {
		if p := recover(); p != nil {
			st := string(debug.Stack())
			if len(st) > 3000 {
				st = st[:3000]
			}
			o = Outcome{OK: false, Panic: fmt.Sprintf("%v\n%s", p, st)}
		}
	}()
	return handle(line)
}
