package world

import (
	"fmt"
	"strings"

	"pgregory.net/rapid"

	"verif/lib/fsx"
)

// Config steers the world generator.
type Config struct {
	MaxRemotes     int
	MaxRegistry    int
	NFinders       int
	Clones         bool // allow packages with identical content under different addresses
	ErrorDeps      bool // allow dependencies that must fail (no allowed version, escaping relative path)
	Diags          bool // finders emit diagnostics
	Meta           bool // fetcher returns package metadata
	RichTrees      bool // extra files: links, empty dirs, odd modes (C09)
	Twins          bool // build-metadata twins among the offered versions
	EmptyDirClones bool // clones that differ in an empty directory only, with an Add call for that directory
	OddSubPaths    bool // sub-path names that need care when printed
}

var remoteAddrs = []string{
	"git::https://example.com/p0.git",
	"git::https://Example.com/p1.git",   // same length as p0: an equally long alias when it is a clone; upper-case letter in the host
	"https://example.com/dl%20x/p1.tgz", // a path that needs escaping
	"git::ssh://git.example.com/org/p2.git?ref=v1",
	"https://example.com/dl/p3?archive=tgz",
	"git::https://example.com/p0.git?ref=main",
	"https://example.com:8443/p5.tar.gz?token=abc",
	"git::https://github.com/org/p6.git",
	"http::https://example.com/p7.tgz",
}

var registryAddrs = []string{"example.com/ns/r0/aws", "ns/r0/aws", "テラフォーム.example.com/ns/r2/k8s", "example.com:8443/ns/r3/aws"} // the first two: same path on two hosts

var subPool = []string{"", "modules/a", "modules/b", "x", "modules/a/nested"}
var oddSubPool = []string{"with space", "mod@1.0", "ünï", "a+b", "per%cent"}

var offered = []string{"1.4.0+build5", "0.1.0", "1.0.0", "1.0.1", "1.1.0", "1.2.3", "2.0.0", "2.0.0-beta", "2.0.0-rc1", "2.1.0-alpha", "3.0.0", "1.10.0", "1.9.9"}
var constraints = []string{"", "", "released", ">= 1.0.0", "~> 1.0", "~> 1.0.0", "< 2.0.0", ">= 1.0.0, < 1.5.0", "1.0.0", "!= 3.0.0", ">= 2.0.0-beta", "> 5.0.0", "~> 2.0", "<= 1.2.3", "2.0.0-rc1"}

func withSub(addr, sub string) string {
	if sub == "" {
		return addr
	}
	// sub-path goes before the query string
	if i := strings.Index(addr, "?"); i >= 0 {
		return addr[:i] + "//" + sub + addr[i:]
	}
	return addr + "//" + sub
}

// Gen draws a world.
func Gen(t *rapid.T, cfg Config) World {
	if cfg.MaxRemotes == 0 {
		cfg.MaxRemotes = 4
	}
	if cfg.NFinders == 0 {
		cfg.NFinders = 2
	}
	nRem := rapid.IntRange(1, cfg.MaxRemotes).Draw(t, "nremotes")
	nReg := rapid.IntRange(0, cfg.MaxRegistry).Draw(t, "nregistry")
	subs := subPool
	if cfg.OddSubPaths {
		subs = append(append([]string{}, subPool...), oddSubPool...)
	}
	var w World
	var emptyDirCall *AddCall
	// which sub-paths exist in which package
	pkgSubs := make([][]string, nRem)
	for i := 0; i < nRem; i++ {
		n := rapid.IntRange(1, 3).Draw(t, "nmodules")
		seen := map[string]bool{}
		for j := 0; j < n; j++ {
			s := rapid.SampledFrom(subs).Draw(t, "modsub")
			if !seen[s] {
				seen[s] = true
				pkgSubs[i] = append(pkgSubs[i], s)
			}
		}
	}
	// registry packages
	for k := 0; k < nReg; k++ {
		rp := RegistryPkg{Addr: registryAddrs[k]}
		nv := rapid.IntRange(1, 5).Draw(t, "nversions")
		seen := map[string]bool{}
		for j := 0; j < nv; j++ {
			v := rapid.SampledFrom(offered).Draw(t, "offered")
			if cfg.Twins && rapid.IntRange(0, 5).Draw(t, "twin?") == 0 {
				m := rapid.SampledFrom([]string{"a", "b"}).Draw(t, "meta")
				if strings.Contains(v, "+") {
					v += "." + m // already has build metadata: one more identifier
				} else {
					v += "+" + m
				}
			}
			if seen[v] {
				continue
			}
			seen[v] = true
			pi := rapid.IntRange(0, nRem-1).Draw(t, "realpkg")
			rs := rapid.SampledFrom(append([]string{""}, pkgSubs[pi]...)).Draw(t, "realsub")
			rv := RegVersion{V: v, Real: withSub(remoteAddrs[pi], rs)}
			if rapid.IntRange(0, 3).Draw(t, "deprecated?") == 0 {
				rv.Deprecation = &struct {
					Reason string `json:"reason"`
					Link   string `json:"link"`
				}{Reason: "deprecated " + v + " of r" + fmt.Sprint(k) + rapid.SampledFrom([]string{"", "", "\n", "  ", "\n\nsee the link\n"}).Draw(t, "reasontail"), Link: "https://example.com/why/" + v}
			}
			rp.Versions = append(rp.Versions, rv)
		}
		w.Registry = append(w.Registry, rp)
	}
	genDep := func(fromPkg int, fromSub string) Dep {
		d := Dep{Finder: rapid.IntRange(0, cfg.NFinders-1).Draw(t, "depfinder")}
		k := rapid.IntRange(0, 99).Draw(t, "depkind")
		switch {
		case k < 40 || (nReg == 0 && k < 65):
			d.Kind = "remote"
			pi := rapid.IntRange(0, nRem-1).Draw(t, "deppkg")
			// mostly existing module locations, sometimes absent ones
			s := rapid.SampledFrom(append(append([]string{}, pkgSubs[pi]...), "absent", "")).Draw(t, "depsub")
			d.Addr = withSub(remoteAddrs[pi], s)
		case k < 65:
			d.Kind = "registry"
			ri := rapid.IntRange(0, nReg-1).Draw(t, "depreg")
			s := rapid.SampledFrom([]string{"", "", "modules/a", "x", "absent"}).Draw(t, "depregsub")
			d.Addr = withSub(w.Registry[ri].Addr, s)
			if cfg.ErrorDeps {
				d.Allowed = rapid.SampledFrom(constraints).Draw(t, "allowed")
			} else {
				d.Allowed = rapid.SampledFrom([]string{"", "", "released", ">= 0.0.1"}).Draw(t, "allowed-safe")
			}
		default:
			d.Kind = "local"
			depth := 0
			if fromSub != "" {
				depth = strings.Count(fromSub, "/") + 1
			}
			ups := rapid.IntRange(0, depth).Draw(t, "relups")
			if cfg.ErrorDeps && rapid.IntRange(0, 9).Draw(t, "escape?") == 0 {
				ups = depth + 1
			}
			tail := rapid.SampledFrom([]string{"", "modules/a", "modules/b", "x", "sibling", "nested"}).Draw(t, "reltail")
			switch {
			case ups == 0 && tail == "":
				d.Addr = "./"
			case ups == 0:
				d.Addr = "./" + tail
			default:
				d.Addr = strings.TrimSuffix(strings.Repeat("../", ups), "/")
				if tail != "" {
					d.Addr += "/" + tail
				} else if d.Addr == ".." {
					d.Addr = "../"
				}
			}
		}
		return d
	}
	for i := 0; i < nRem; i++ {
		p := RemotePkg{Addr: remoteAddrs[i], Content: fmt.Sprintf("c%d", i)}
		for _, s := range pkgSubs[i] {
			m := Module{Sub: s, Deps: map[string][]Dep{}}
			for f := 0; f < cfg.NFinders; f++ {
				nd := rapid.IntRange(0, 3).Draw(t, "ndeps")
				for j := 0; j < nd; j++ {
					m.Deps[fmt.Sprint(f)] = append(m.Deps[fmt.Sprint(f)], genDep(i, s))
				}
				if cfg.Diags && rapid.IntRange(0, 3).Draw(t, "diags?") == 0 {
					m.Diags = map[string][]Diag{}
					nd := rapid.IntRange(1, 3).Draw(t, "ndiags")
					for j := 0; j < nd; j++ {
						m.Diags[fmt.Sprint(f)] = append(m.Diags[fmt.Sprint(f)], genDiag(t, cfg))
					}
				}
			}
			p.Modules = append(p.Modules, m)
		}
		if cfg.Meta && rapid.Bool().Draw(t, "meta?") {
			p.Meta = &Meta{CommitID: rapid.SampledFrom([]string{"abc123", "deadbeef", ""}).Draw(t, "commit"),
				Message: rapid.SampledFrom([]string{"initial commit", "", "fix: things\n\nbody", "legacy encoding caf{xff} byte"}).Draw(t, "message")}
		}
		if cfg.RichTrees {
			p.Extra = genExtra(t, i)
		}
		w.Remotes = append(w.Remotes, p)
	}
	cloneSrc := 0
	if cfg.Clones && nRem >= 2 && rapid.IntRange(0, 2).Draw(t, "clone?") == 0 {
		// the last package becomes a byte-identical copy of the first, under its own address
		// (mostly of the first; any earlier package now and then: which of two addresses is the shorter or sorts first varies)
		srcIdx := 0
		if nRem >= 3 && rapid.IntRange(0, 2).Draw(t, "clonesrc?") == 0 {
			srcIdx = rapid.IntRange(0, nRem-2).Draw(t, "clonesrc")
		}
		cloneSrc = srcIdx
		src := w.Remotes[srcIdx]
		last := &w.Remotes[nRem-1]
		last.Content = src.Content
		last.Modules = src.Modules
		last.Extra = src.Extra
		switch rapid.IntRange(0, 3).Draw(t, "ignoredonly?") {
		case 0:
			// ... or a copy that differs only in files the bundle never keeps
			src0 := &w.Remotes[srcIdx]
			src0.Extra = append(append(fsx.Tree{}, src0.Extra...), fsx.Node{Path: ".git/HEAD", Kind: "file", Content: "ref: a", Mode: 0644, Sec: 1500000000})
			last.Extra = append(append(fsx.Tree{}, src.Extra...), fsx.Node{Path: ".git/HEAD", Kind: "file", Content: "ref: b (other checkout)", Mode: 0644, Sec: 1500000000},
				fsx.Node{Path: ".terraform/plugins/x", Kind: "file", Content: "plugin", Mode: 0755, Sec: 1500000000})
		}
		if rapid.IntRange(0, 5).Draw(t, "linkclone?") == 0 {
			// ... or a copy in which an in-package link leads to another file: the same regular files, different content behind one name
			two := fsx.Tree{{Path: "cfg-a.deps", Kind: "file", Content: "deps of a", Mode: 0644, Sec: 1500000000}, {Path: "cfg-b.deps", Kind: "file", Content: "deps of b", Mode: 0644, Sec: 1500000000}}
			src0 := &w.Remotes[srcIdx]
			src0.Extra = append(append(append(fsx.Tree{}, src.Extra...), two...), fsx.Node{Path: "current.deps", Kind: "symlink", Target: "cfg-a.deps"})
			last.Extra = append(append(append(fsx.Tree{}, src.Extra...), two...), fsx.Node{Path: "current.deps", Kind: "symlink", Target: "cfg-b.deps"})
		} else if cfg.EmptyDirClones && rapid.IntRange(0, 2).Draw(t, "emptydirclone?") == 0 {
			// ... or a copy that differs in an empty directory only, which the caller asks for
			last.Extra = append(append(fsx.Tree{}, src.Extra...), fsx.Node{Path: "only-empty", Kind: "dir", Mode: 0755, Sec: 1500000000})
			emptyDirCall = &AddCall{Kind: "remote", Addr: withSub(last.Addr, "only-empty")}
		} else if rapid.IntRange(0, 2).Draw(t, "nearclone?") == 0 {
			// ... or differs in exactly one file
			last.Extra = append(append(fsx.Tree{}, src.Extra...), fsx.Node{Path: "only-here.txt", Kind: "file", Content: "x", Mode: 0644, Sec: 1500000000})
			last.Content = src.Content // same marker, different content
		}
	}
	// script
	if emptyDirCall != nil {
		w.Script = append(w.Script, AddCall{Kind: "remote", Addr: w.Remotes[cloneSrc].Addr}, *emptyDirCall)
	}
	nCalls := rapid.IntRange(1, 4).Draw(t, "ncalls")
	for i := 0; i < nCalls; i++ {
		c := AddCall{Finder: rapid.IntRange(0, cfg.NFinders-1).Draw(t, "callfinder")}
		k := rapid.IntRange(0, 9).Draw(t, "callkind")
		switch {
		case k < 5 || nReg == 0:
			c.Kind = "remote"
			pi := rapid.IntRange(0, nRem-1).Draw(t, "callpkg")
			c.Addr = withSub(remoteAddrs[pi], rapid.SampledFrom(append([]string{""}, pkgSubs[pi]...)).Draw(t, "callsub"))
		case k < 8:
			c.Kind = "registry"
			ri := rapid.IntRange(0, nReg-1).Draw(t, "callreg")
			c.Addr = withSub(w.Registry[ri].Addr, rapid.SampledFrom([]string{"", "", "modules/a", "x"}).Draw(t, "callregsub"))
			if cfg.ErrorDeps {
				c.Allowed = rapid.SampledFrom(constraints).Draw(t, "callallowed")
			} else {
				c.Allowed = rapid.SampledFrom([]string{"", "", "released", ">= 0.0.1"}).Draw(t, "callallowed-safe")
			}
		default:
			c.Kind = "final"
			ri := rapid.IntRange(0, nReg-1).Draw(t, "callreg")
			c.Addr = withSub(w.Registry[ri].Addr, rapid.SampledFrom([]string{"", "modules/a"}).Draw(t, "callregsub"))
			vs := w.Registry[ri].Versions
			c.Version = vs[rapid.IntRange(0, len(vs)-1).Draw(t, "callversion")].V
			if cfg.ErrorDeps && rapid.IntRange(0, 9).Draw(t, "missingversion?") == 0 {
				c.Version = "9.9.9"
			}
		}
		w.Script = append(w.Script, c)
	}
	if cfg.Twins && nReg > 0 && nRem >= 2 && rapid.IntRange(0, 3).Draw(t, "pintwins?") == 0 {
		// two releases that differ in build metadata only, lead to different packages and are both pinned:
		// both are in the bundle, a lookup that spells the version a third way has no exact answer
		rp := &w.Registry[0]
		rp.Versions = append(rp.Versions, RegVersion{V: "3.3.3+a", Real: remoteAddrs[0]}, RegVersion{V: "3.3.3+b", Real: remoteAddrs[1]})
		w.Script = append(w.Script, AddCall{Kind: "final", Addr: rp.Addr, Version: "3.3.3+a"}, AddCall{Kind: "final", Addr: rp.Addr, Version: "3.3.3+b"})
	}
	return w
}

func genDiag(t *rapid.T, cfg Config) Diag {
	d := Diag{Severity: "W", Summary: rapid.SampledFrom([]string{"Deprecated argument", "Something odd", "unicode ✓"}).Draw(t, "summary"),
		Detail: rapid.SampledFrom([]string{"", "more detail here", "multi\nline"}).Draw(t, "detail")}
	if cfg.ErrorDeps && rapid.IntRange(0, 4).Draw(t, "errdiag?") == 0 {
		d.Severity = "E"
	}
	d.Subject = rapid.SampledFrom([]string{"", "main.tf", "modules/a/main.tf", "/abs/path.tf", "../outside.tf", "with space.tf", "", "a//b.tf", "./x.tf", "<generated>"}).Draw(t, "subject")
	d.Context = rapid.SampledFrom([]string{"", "", "main.tf", "nested/ctx.tf", "../ctx.tf"}).Draw(t, "context")
	d.Extra = rapid.SampledFrom([]string{"", "", "extra-info"}).Draw(t, "extra")
	return d
}

func genExtra(t *rapid.T, i int) fsx.Tree {
	var tr fsx.Tree
	n := rapid.IntRange(0, 4).Draw(t, "nextra")
	for j := 0; j < n; j++ {
		name := fmt.Sprintf("extra%d", j)
		if rapid.IntRange(0, 3).Draw(t, "awkwardname") == 0 {
			// names that merely contain dots, spaces or non-ASCII letters
			name = rapid.SampledFrom([]string{"..data", "v1..v2.diff", "...", "with space", "-dash", "ünï", "..", "a..", ".hidden", "back\\slash", "tmpl\\esc.tmpl", ".DS_Store", "._main.tf"}).Draw(t, "awkward") + fmt.Sprint(j)
		}
		switch rapid.IntRange(0, 26).Draw(t, "extrakind") % 9 {
		case 0:
			content := fmt.Sprintf("doc %d %d", i, j)
			switch rapid.IntRange(0, 7).Draw(t, "zeros") {
			case 0:
				content = strings.Repeat("\x00", 16)
			case 1:
				content += strings.Repeat("x", 40000) + strings.Repeat("\x00", 30000)
			}
			tr = append(tr, fsx.Node{Path: "docs/" + name + ".md", Kind: "file", Content: content, Mode: 0644, Sec: 1500000100})
			if name == ".DS_Store"+fmt.Sprint(j) || name == "._main.tf"+fmt.Sprint(j) {
				// the name exactly, too
				tr = append(tr, fsx.Node{Path: "docs/" + strings.TrimSuffix(name, fmt.Sprint(j)), Kind: "file", Content: "meta", Mode: 0644, Sec: 1500000101})
			}
		case 1:
			tr = append(tr, fsx.Node{Path: "bin/" + name, Kind: "file", Content: "#!/bin/sh\n", Mode: 0755, Sec: 1500000200})
		case 2:
			tr = append(tr, fsx.Node{Path: "empty-" + name, Kind: "dir", Mode: 0755, Sec: 1500000300})
		case 8:
			tr = append(tr, fsx.Node{Path: "link-" + name, Kind: "symlink", Target: rapid.SampledFrom([]string{"pkg.txt", "./pkg.txt", "docs/../pkg.txt", ".//pkg.txt"}).Draw(t, "linktarget")},
				fsx.Node{Path: "docs/about.md", Kind: "file", Content: "about", Mode: 0644, Sec: 1500000050})
		case 4:
			tr = append(tr, fsx.Node{Path: "ro/" + name, Kind: "file", Content: "readonly", Mode: 0444, Sec: 1500000400, Nsec: 500000000})
		case 5:
			tr = append(tr, fsx.Node{Path: "shared/" + name, Kind: "file", Content: "world-writable", Mode: 0666, Sec: 1500000500})
		case 3:
			tr = append(tr, fsx.Node{Path: "Docs-" + name, Kind: "dir", Mode: 0750, Sec: 1500000800}, fsx.Node{Path: "Docs-" + name + "/f", Kind: "file", Content: "upper", Mode: 0640, Sec: 1500000801},
				fsx.Node{Path: "docs-" + name, Kind: "dir", Mode: 0700, Sec: 1500000802}, fsx.Node{Path: "docs-" + name + "/f", Kind: "file", Content: "lower", Mode: 0600, Sec: 1500000803})
		case 6:
			tr = append(tr, fsx.Node{Path: "open-" + name, Kind: "dir", Mode: 0777, Sec: 1500000600}, fsx.Node{Path: "open-" + name + "/f", Kind: "file", Content: "x", Mode: 0600, Sec: 1500000601})
		default:
			// (7 % 8 occurs for 7 and 15 only: links to directories make the package checksum fail)
			tr = append(tr, fsx.Node{Path: "dirlink-" + name, Kind: "symlink", Target: "docs"}, fsx.Node{Path: "docs/index.md", Kind: "file", Content: "idx", Mode: 0644, Sec: 1500000700})
		}
	}
	return tr
}
