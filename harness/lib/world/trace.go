package world

import (
	"fmt"
	"strings"
)

// CheckBracketing: per kind, start -> exactly one success|failure with the same key;
// the real call sits between them; 'already' only after a success for that key.
func CheckBracketing(log []Event) error {
	type st struct {
		open    string
		called  bool
		success map[string]bool
	}
	kinds := map[string]*st{"versions": {success: map[string]bool{}}, "source": {success: map[string]bool{}}, "download": {success: map[string]bool{}}}
	callKind := map[string]string{"versions": "versions", "source": "source", "fetch": "download"}
	for i, e := range log {
		if k, ok := callKind[e.Kind]; ok {
			s := kinds[k]
			if s.open == "" {
				return fmt.Errorf("event %d: %s call for %s outside a start/success bracket of the tracer", i, e.Kind, e.Key)
			}
			if s.open != e.Key {
				return fmt.Errorf("event %d: %s call for %s inside the bracket opened for %s", i, e.Kind, e.Key, s.open)
			}
			if s.called {
				return fmt.Errorf("event %d: second %s call for %s inside one bracket", i, e.Kind, e.Key)
			}
			s.called = true
			continue
		}
		if !strings.HasPrefix(e.Kind, "trace:") {
			continue
		}
		parts := strings.SplitN(strings.TrimPrefix(e.Kind, "trace:"), "-", 2)
		if len(parts) != 2 {
			continue
		}
		s := kinds[parts[0]]
		if s == nil {
			continue
		}
		switch parts[1] {
		case "start":
			if s.open != "" {
				return fmt.Errorf("event %d: %s start for %s while the bracket for %s is still open", i, parts[0], e.Key, s.open)
			}
			s.open, s.called = e.Key, false
		case "success", "failure":
			if s.open != e.Key {
				return fmt.Errorf("event %d: %s %s for %s without a matching start (open: %q)", i, parts[0], parts[1], e.Key, s.open)
			}
			// a failure may be reported before the real call is made (the caller has
			// given up, say); a success without it claims work that was never done
			if !s.called && parts[1] == "success" {
				return fmt.Errorf("event %d: %s %s for %s although the real call never happened", i, parts[0], parts[1], e.Key)
			}
			if parts[1] == "success" {
				s.success[e.Key] = true
			}
			s.open = ""
		case "already":
			if !s.success[e.Key] {
				return fmt.Errorf("event %d: %s 'already' event for %s, but no success was reported for it earlier", i, parts[0], e.Key)
			}
		}
	}
	for k, s := range kinds {
		if s.open != "" {
			return fmt.Errorf("%s start for %s was never followed by success or failure", k, s.open)
		}
	}
	return nil
}
