// Package world: scripted "worlds" for the bundle builder (C08-C10, C12-C14,
// C17, C18): remote packages, registry packages, dependency tables embedded in
// the package trees, Add scripts; a harness fetcher / registry client / finder
// / tracer that log every call and can inject faults; and an independent
// reference computing the expected closure. See DESIGN.md §4.7.
package world

import (
	"context"
	"encoding/json"
	"fmt"
	iofs "io/fs"
	"net/url"
	"os"
	"path"
	"path/filepath"
	"sort"
	"strings"
	"sync"

	"github.com/apparentlymart/go-versions/versions"
	"github.com/hashicorp/go-slug/sourceaddrs"
	"github.com/hashicorp/go-slug/sourcebundle"
	regaddr "github.com/hashicorp/terraform-registry-address"

	"verif/lib/fsx"
)

// ---------------------------------------------------------------------------
// data

type Meta struct {
	CommitID string `json:"commit_id"`
	Message  string `json:"message"`
}

type Dep struct {
	Kind    string `json:"kind"`              // remote | registry | local
	Addr    string `json:"addr"`              // source address text
	Allowed string `json:"allowed,omitempty"` // registry: "" = all, "released", or a ruby-style constraint string
	Finder  int    `json:"finder"`
}

type Diag struct {
	Severity string `json:"severity"` // E | W
	Summary  string `json:"summary"`
	Detail   string `json:"detail"`
	Subject  string `json:"subject,omitempty"` // file name ("" = nil range)
	Context  string `json:"context,omitempty"`
	Extra    string `json:"extra,omitempty"`
}

// Module is one module location inside a package: what each finder reports there.
type Module struct {
	Sub   string            `json:"sub"`             // "" = package root
	Deps  map[string][]Dep  `json:"deps,omitempty"`  // finder id (as string) -> dependencies
	Diags map[string][]Diag `json:"diags,omitempty"` // finder id -> diagnostics
}

type RemotePkg struct {
	Addr    string   `json:"addr"`
	Content string   `json:"content"` // content id: packages with the same id have byte-identical trees
	Modules []Module `json:"modules"`
	Extra   fsx.Tree `json:"extra,omitempty"` // additional files (relative to the package root)
	Meta    *Meta    `json:"meta,omitempty"`
}

type RegVersion struct {
	V           string `json:"v"`
	Real        string `json:"real"` // remote source address the registry names for this version
	Deprecation *struct {
		Reason string `json:"reason"`
		Link   string `json:"link"`
	} `json:"deprecation,omitempty"`
}

type RegistryPkg struct {
	Addr     string       `json:"addr"`
	Versions []RegVersion `json:"versions"` // in listing order
}

type AddCall struct {
	Kind    string `json:"kind"` // remote | registry | final
	Addr    string `json:"addr"`
	Allowed string `json:"allowed,omitempty"`
	Version string `json:"version,omitempty"` // final
	Finder  int    `json:"finder"`
}

type World struct {
	Remotes  []RemotePkg   `json:"remotes"`
	Registry []RegistryPkg `json:"registry"`
	Script   []AddCall     `json:"script"`
}

// Tree renders the files of a package: a marker, one directory per module with
// a token file and the finder-readable dependency files.
func (p RemotePkg) Tree() fsx.Tree {
	tr := fsx.Tree{{Path: "pkg.txt", Kind: "file", Content: "content:" + p.Content, Mode: 0644, Sec: 1500000000}}
	for _, m := range p.Modules {
		dir := m.Sub
		join := func(n string) string {
			if dir == "" {
				return n
			}
			return dir + "/" + n
		}
		if dir != "" {
			tr = append(tr, fsx.Node{Path: dir, Kind: "dir", Mode: 0755, Sec: 1500000000})
		}
		tr = append(tr, fsx.Node{Path: join("main.tf"), Kind: "file", Content: "module:" + p.Content + ":" + m.Sub, Mode: 0644, Sec: 1500000000})
		ids := map[string]bool{}
		for id := range m.Deps {
			ids[id] = true
		}
		for id := range m.Diags {
			ids[id] = true
		}
		for id := range ids {
			b, _ := json.Marshal(struct {
				Deps  []Dep  `json:"deps"`
				Diags []Diag `json:"diags"`
			}{m.Deps[id], m.Diags[id]})
			tr = append(tr, fsx.Node{Path: join("deps-f" + id + ".json"), Kind: "file", Content: string(b), Mode: 0644, Sec: 1500000000})
		}
	}
	tr = append(tr, p.Extra...)
	return tr
}

// AllowedSet turns the textual form into a version set.
func AllowedSet(s string) (versions.Set, error) {
	switch s {
	case "":
		return versions.All, nil
	case "released":
		return versions.Released, nil
	}
	return versions.MeetingConstraintsStringRuby(s)
}

// ---------------------------------------------------------------------------
// harness: fetcher, registry client, finders, tracer

type Event struct {
	Kind string `json:"kind"`
	Key  string `json:"key"`
	Note string `json:"note,omitempty"`
}

type Fault struct {
	Kind string `json:"kind"` // fetch | fetch-hazard | fetch-panic | finder-panic | versions | versions-empty | source | finder-error
	N    int    `json:"n"`    // fire on the n-th call of that kind (1-based)
}

type Harness struct {
	W         World
	mu        sync.Mutex
	Log       []Event // every call to fetcher / registry / finder, and every trace event, in order
	Faults    []Fault
	counts    map[string]int
	diagCache map[string]sourcebundle.Diagnostics
	Finders   []*Finder
	// OnBoundary, if set, is called at every callback boundary (C12 crash points).
	OnBoundary func(where string)
	// Budget aborts runaway builds: when more callbacks than this have been made, finders fail the build.
	Budget     int
	callbacks  int
	Overbudget bool
	// PermuteDeps reorders the dependency report of every finder call (C13).
	PermuteDeps func(deps []Dep) []Dep
	// Yield is called inside callbacks in concurrent runs (C13).
	Yield func()
}

func NewHarness(w World, nFinders int) *Harness {
	h := &Harness{W: w, counts: map[string]int{}, Budget: 100000}
	for i := 0; i < nFinders; i++ {
		h.Finders = append(h.Finders, &Finder{h: h, ID: i})
	}
	return h
}

func (h *Harness) log(kind, key, note string) {
	h.mu.Lock()
	h.Log = append(h.Log, Event{kind, key, note})
	h.callbacks++
	if h.callbacks > h.Budget {
		h.Overbudget = true
	}
	ob := h.OnBoundary
	y := h.Yield
	h.mu.Unlock()
	if ob != nil {
		ob(kind + " " + key)
	}
	if y != nil {
		y()
	}
}

func (h *Harness) fire(kind string) bool {
	h.mu.Lock()
	defer h.mu.Unlock()
	h.counts[kind]++
	for _, f := range h.Faults {
		if f.Kind == kind && f.N == h.counts[kind] {
			return true
		}
	}
	return false
}

// Count returns how many calls of a kind were made.
func (h *Harness) Count(kind string) int {
	h.mu.Lock()
	defer h.mu.Unlock()
	return h.counts[kind]
}

func pkgKey(sourceType string, u *url.URL) string {
	if u.Scheme == sourceType {
		return u.String()
	}
	return sourceType + "::" + u.String()
}

// FetchSourcePackage implements sourcebundle.PackageFetcher.
func (h *Harness) FetchSourcePackage(ctx context.Context, sourceType string, u *url.URL, targetDir string) (sourcebundle.FetchSourcePackageResponse, error) {
	key := pkgKey(sourceType, u)
	// the URL is the fetcher's to use: like a fetcher that strips the arguments meant for itself,
	// this one edits it in place once it has read it
	u.RawQuery, u.Fragment, u.Path = "", "edited-by-the-fetcher", u.Path+"/edited"
	h.log("fetch", key, "")
	if h.fire("fetch") {
		return sourcebundle.FetchSourcePackageResponse{}, fmt.Errorf("injected fetch failure for %s", key)
	}
	if h.fire("fetch-panic") {
		panic("injected panic in the fetcher for " + key)
	}
	// a download that succeeds but delivers something the builder has to refuse afterwards
	hazard := h.fire("fetch-hazard")
	for _, p := range h.W.Remotes {
		pa, err := sourceaddrs.ParseRemotePackage(p.Addr)
		if err != nil {
			continue
		}
		if pa.String() == key {
			if err := fsx.Materialise(targetDir, p.Tree(), map[string]string{"T": targetDir}); err != nil {
				return sourcebundle.FetchSourcePackageResponse{}, fmt.Errorf("harness: materialise: %v", err)
			}
			if hazard {
				os.Symlink("/etc/passwd", filepath.Join(targetDir, "hazard-absolute-link"))
			}
			var resp sourcebundle.FetchSourcePackageResponse
			if p.Meta != nil {
				resp.PackageMeta = sourcebundle.PackageMetaWithGitMetadata(p.Meta.CommitID, RawText(p.Meta.Message))
			}
			return resp, nil
		}
	}
	return sourcebundle.FetchSourcePackageResponse{}, fmt.Errorf("harness: unknown package %s", key)
}

func (h *Harness) regPkg(pkgAddr regaddr.ModulePackage) *RegistryPkg {
	for i := range h.W.Registry {
		pa, err := sourceaddrs.ParseRegistryPackage(h.W.Registry[i].Addr)
		if err == nil && pa == pkgAddr {
			return &h.W.Registry[i]
		}
	}
	return nil
}

// ModulePackageVersions implements sourcebundle.RegistryClient.
func (h *Harness) ModulePackageVersions(ctx context.Context, pkgAddr regaddr.ModulePackage) (sourcebundle.ModulePackageVersionsResponse, error) {
	h.log("versions", pkgAddr.String(), "")
	if h.fire("versions") {
		return sourcebundle.ModulePackageVersionsResponse{}, fmt.Errorf("injected registry failure listing %s", pkgAddr)
	}
	if h.fire("versions-empty") {
		// the registry answers, and offers nothing
		return sourcebundle.ModulePackageVersionsResponse{}, nil
	}
	rp := h.regPkg(pkgAddr)
	if rp == nil {
		return sourcebundle.ModulePackageVersionsResponse{}, fmt.Errorf("harness: unknown registry package %s", pkgAddr)
	}
	var resp sourcebundle.ModulePackageVersionsResponse
	for _, v := range rp.Versions {
		pv, err := versions.ParseVersion(v.V)
		if err != nil {
			return resp, fmt.Errorf("harness: bad version %q", v.V)
		}
		info := sourcebundle.ModulePackageInfo{Version: pv}
		if v.Deprecation != nil {
			info.Deprecation = &sourcebundle.ModulePackageVersionDeprecation{Reason: v.Deprecation.Reason, Link: v.Deprecation.Link}
		}
		resp.Versions = append(resp.Versions, info)
	}
	return resp, nil
}

// ModulePackageSourceAddr implements sourcebundle.RegistryClient.
func (h *Harness) ModulePackageSourceAddr(ctx context.Context, pkgAddr regaddr.ModulePackage, version versions.Version) (sourcebundle.ModulePackageSourceAddrResponse, error) {
	h.log("source", pkgAddr.String()+"@"+version.String(), "")
	if h.fire("source") {
		return sourcebundle.ModulePackageSourceAddrResponse{}, fmt.Errorf("injected registry failure resolving %s %s", pkgAddr, version)
	}
	rp := h.regPkg(pkgAddr)
	if rp == nil {
		return sourcebundle.ModulePackageSourceAddrResponse{}, fmt.Errorf("harness: unknown registry package %s", pkgAddr)
	}
	for _, v := range rp.Versions {
		pv, _ := versions.ParseVersion(v.V)
		if pv == version { // exact, including build metadata
			src, err := sourceaddrs.ParseRemoteSource(v.Real)
			if err != nil {
				return sourcebundle.ModulePackageSourceAddrResponse{}, fmt.Errorf("harness: bad real source %q: %v", v.Real, err)
			}
			// A registry client builds its answer from a URL value, not from text: the same
			// address made through the constructor, from a URL that spells its escaped path out.
			srcPkg := src.Package()
			u := *srcPkg.URL()
			u.RawPath = u.EscapedPath()
			// ... and that names the host the way the registry's own text spells it
			raw := v.Real
			if i := strings.Index(raw, "::"); i >= 0 && !strings.Contains(raw[:i], "/") {
				raw = raw[i+2:]
			}
			if pu, perr := url.Parse(raw); perr == nil && strings.EqualFold(pu.Host, u.Host) {
				u.Host = pu.Host
			}
			if made, merr := sourceaddrs.MakeRemoteSource(src.Package().SourceType(), &u, src.SubPath()); merr == nil {
				src = made
			}
			return sourcebundle.ModulePackageSourceAddrResponse{SourceAddr: src}, nil
		}
	}
	// fall back to precedence-equal (a request for 1.0.0 when 1.0.0+a is listed)
	for _, v := range rp.Versions {
		pv, _ := versions.ParseVersion(v.V)
		if pv.Same(version) {
			src, err := sourceaddrs.ParseRemoteSource(v.Real)
			if err == nil {
				return sourcebundle.ModulePackageSourceAddrResponse{SourceAddr: src}, nil
			}
		}
	}
	return sourcebundle.ModulePackageSourceAddrResponse{}, fmt.Errorf("harness: registry package %s has no version %s", pkgAddr, version)
}

// Finder is a dependency finder; distinct pointers are distinct finders.
type Finder struct {
	h  *Harness
	ID int
}

type depFile struct {
	Deps  []Dep  `json:"deps"`
	Diags []Diag `json:"diags"`
}

type harnessDiag struct {
	d Diag
}

func (d harnessDiag) Severity() sourcebundle.DiagSeverity {
	if d.d.Severity == "E" {
		return sourcebundle.DiagError
	}
	return sourcebundle.DiagWarning
}
func (d harnessDiag) Description() sourcebundle.DiagDescription {
	return sourcebundle.DiagDescription{Summary: d.d.Summary, Detail: d.d.Detail}
}
func (d harnessDiag) Source() sourcebundle.DiagSource {
	var s sourcebundle.DiagSource
	if d.d.Subject != "" {
		s.Subject = &sourcebundle.SourceRange{Filename: d.d.Subject, Start: sourcebundle.SourcePos{Line: 1, Column: 1}, End: sourcebundle.SourcePos{Line: 1, Column: 5, Byte: 4}}
	}
	if d.d.Context != "" {
		s.Context = &sourcebundle.SourceRange{Filename: d.d.Context, Start: sourcebundle.SourcePos{Line: 1, Column: 1}, End: sourcebundle.SourcePos{Line: 3, Column: 1, Byte: 30}}
	}
	return s
}
func (d harnessDiag) ExtraInfo() interface{} {
	if d.d.Extra == "" {
		return nil
	}
	return d.d.Extra
}

// FindDependencies implements sourcebundle.DependencyFinder by reading the
// dependency file planted in the module directory.
func (f *Finder) FindDependencies(fsys iofs.FS, subPath string, deps *sourcebundle.Dependencies) sourcebundle.Diagnostics {
	h := f.h
	// identify the package by its marker (content id)
	marker, _ := iofs.ReadFile(fsys, "pkg.txt")
	key := fmt.Sprintf("%s//%s#f%d", strings.TrimPrefix(string(marker), "content:"), subPath, f.ID)
	h.log("analyse", key, "")
	if h.Overbudget {
		return sourcebundle.Diagnostics{harnessDiag{Diag{Severity: "E", Summary: "harness call budget exceeded", Detail: "the build does not terminate"}}}
	}
	if h.fire("finder-panic") {
		panic("injected panic in the dependency finder at " + key)
	}
	if h.fire("finder-error") {
		return sourcebundle.Diagnostics{harnessDiag{Diag{Severity: "E", Summary: "injected finder error", Detail: key}}}
	}
	name := fmt.Sprintf("deps-f%d.json", f.ID)
	if subPath != "" {
		name = path.Join(subPath, name)
	}
	if fi, serr := iofs.Stat(fsys, subPath); subPath != "" && serr == nil && fi.Mode().IsRegular() {
		// the artifact is a single file: it declares its dependencies itself
		name = subPath
	}
	raw, err := iofs.ReadFile(fsys, name)
	if err != nil {
		return nil // nothing declared here (or the location does not exist)
	}
	var df depFile
	if err := json.Unmarshal(raw, &df); err != nil {
		return sourcebundle.Diagnostics{harnessDiag{Diag{Severity: "E", Summary: "harness: bad deps file", Detail: err.Error()}}}
	}
	list := df.Deps
	if h.PermuteDeps != nil {
		list = h.PermuteDeps(append([]Dep{}, list...))
	}
	for _, d := range list {
		fd := h.Finders[d.Finder%len(h.Finders)]
		switch d.Kind {
		case "remote":
			src, err := sourceaddrs.ParseRemoteSource(d.Addr)
			if err != nil {
				return sourcebundle.Diagnostics{harnessDiag{Diag{Severity: "E", Summary: "harness: bad remote dep", Detail: d.Addr}}}
			}
			deps.AddRemoteSource(src, fd)
		case "registry":
			src, err := sourceaddrs.ParseRegistrySource(d.Addr)
			if err != nil {
				return sourcebundle.Diagnostics{harnessDiag{Diag{Severity: "E", Summary: "harness: bad registry dep", Detail: d.Addr}}}
			}
			set, err := AllowedSet(d.Allowed)
			if err != nil {
				return sourcebundle.Diagnostics{harnessDiag{Diag{Severity: "E", Summary: "harness: bad constraint", Detail: d.Allowed}}}
			}
			deps.AddRegistrySource(src, set, fd)
		case "local":
			src, err := sourceaddrs.ParseLocalSource(d.Addr)
			if err != nil {
				return sourcebundle.Diagnostics{harnessDiag{Diag{Severity: "E", Summary: "harness: bad local dep", Detail: d.Addr}}}
			}
			deps.AddLocalSource(src, fd)
		}
	}
	if len(df.Diags) == 0 {
		return nil
	}
	// A finder may keep its findings and hand the very same slice back whenever they
	// apply again (another package with the same content of findings): equal lists share one slice.
	kb, _ := json.Marshal(df.Diags)
	f.h.mu.Lock()
	defer f.h.mu.Unlock()
	if f.h.diagCache == nil {
		f.h.diagCache = map[string]sourcebundle.Diagnostics{}
	}
	if cached, ok := f.h.diagCache[string(kb)]; ok {
		return cached
	}
	var out sourcebundle.Diagnostics
	for _, d := range df.Diags {
		out = append(out, harnessDiag{d})
	}
	f.h.diagCache[string(kb)] = out
	return out
}

// TracerMode: "full" (default), "none" (no tracer at all) or "partial:<n>"
// (a tracer in which the callbacks selected by the bits of n are left nil).
func (h *Harness) Context(mode string) context.Context {
	ctx := context.Background()
	if mode == "none" {
		return ctx
	}
	tr := h.Tracer()
	if strings.HasPrefix(mode, "partial:") {
		var n int
		fmt.Sscanf(strings.TrimPrefix(mode, "partial:"), "%d", &n)
		drop := func(bit int) bool { return n&(1<<bit) != 0 }
		if drop(0) {
			tr.RegistryPackageVersionsStart = nil
		}
		if drop(1) {
			tr.RegistryPackageVersionsSuccess = nil
		}
		if drop(2) {
			tr.RegistryPackageVersionsAlready = nil
		}
		if drop(3) {
			tr.RegistryPackageSourceStart = nil
		}
		if drop(4) {
			tr.RegistryPackageSourceSuccess = nil
		}
		if drop(5) {
			tr.RegistryPackageSourceAlready = nil
		}
		if drop(6) {
			tr.RemotePackageDownloadStart = nil
		}
		if drop(7) {
			tr.RemotePackageDownloadSuccess = nil
		}
		if drop(8) {
			tr.RemotePackageDownloadAlready = nil
		}
		if drop(9) {
			tr.Diagnostics = nil
		}
		if drop(10) {
			tr.RegistryPackageVersionsFailure = nil
			tr.RegistryPackageSourceFailure = nil
			tr.RemotePackageDownloadFailure = nil
		}
	}
	return tr.OnContext(ctx)
}

// Tracer returns a BuildTracer that records every event in the harness log.
func (h *Harness) Tracer() *sourcebundle.BuildTracer {
	type ctxKey string
	mark := func(ctx context.Context, k string) context.Context { return context.WithValue(ctx, ctxKey("req"), k) }
	return &sourcebundle.BuildTracer{
		RegistryPackageVersionsStart: func(ctx context.Context, p regaddr.ModulePackage) context.Context {
			h.log("trace:versions-start", p.String(), "")
			return mark(ctx, "versions "+p.String())
		},
		RegistryPackageVersionsSuccess: func(ctx context.Context, p regaddr.ModulePackage, vs versions.List) {
			h.log("trace:versions-success", p.String(), fmt.Sprint(vs))
		},
		RegistryPackageVersionsFailure: func(ctx context.Context, p regaddr.ModulePackage, err error) {
			h.log("trace:versions-failure", p.String(), err.Error())
		},
		RegistryPackageVersionsAlready: func(ctx context.Context, p regaddr.ModulePackage, vs versions.List) {
			h.log("trace:versions-already", p.String(), fmt.Sprint(vs))
		},
		RegistryPackageSourceStart: func(ctx context.Context, p regaddr.ModulePackage, v versions.Version) context.Context {
			h.log("trace:source-start", p.String()+"@"+v.String(), "")
			return mark(ctx, "source "+p.String())
		},
		RegistryPackageSourceSuccess: func(ctx context.Context, p regaddr.ModulePackage, v versions.Version, s sourceaddrs.RemoteSource) {
			h.log("trace:source-success", p.String()+"@"+v.String(), s.String())
		},
		RegistryPackageSourceFailure: func(ctx context.Context, p regaddr.ModulePackage, v versions.Version, err error) {
			h.log("trace:source-failure", p.String()+"@"+v.String(), err.Error())
		},
		RegistryPackageSourceAlready: func(ctx context.Context, p regaddr.ModulePackage, v versions.Version, s sourceaddrs.RemoteSource) {
			h.log("trace:source-already", p.String()+"@"+v.String(), s.String())
		},
		RemotePackageDownloadStart: func(ctx context.Context, p sourceaddrs.RemotePackage) context.Context {
			h.log("trace:download-start", p.String(), "")
			return mark(ctx, "download "+p.String())
		},
		RemotePackageDownloadSuccess: func(ctx context.Context, p sourceaddrs.RemotePackage) {
			h.log("trace:download-success", p.String(), "")
		},
		RemotePackageDownloadFailure: func(ctx context.Context, p sourceaddrs.RemotePackage, err error) {
			h.log("trace:download-failure", p.String(), err.Error())
		},
		RemotePackageDownloadAlready: func(ctx context.Context, p sourceaddrs.RemotePackage) {
			h.log("trace:download-already", p.String(), "")
		},
		Diagnostics: func(ctx context.Context, diags sourcebundle.Diagnostics) {
			var parts []string
			for _, d := range diags {
				parts = append(parts, DiagString(d))
			}
			h.log("trace:diagnostics", fmt.Sprint(len(diags)), strings.Join(parts, " || "))
		},
	}
}

// DiagString renders a diagnostic completely (severity, text, ranges, extra).
func DiagString(d sourcebundle.Diagnostic) string {
	src := d.Source()
	rng := func(r *sourcebundle.SourceRange) string {
		if r == nil {
			return "nil"
		}
		return fmt.Sprintf("%s:%d:%d-%d:%d", r.Filename, r.Start.Line, r.Start.Column, r.End.Line, r.End.Column)
	}
	return fmt.Sprintf("%c|%s|%s|%s|%s|%v", rune(d.Severity()), d.Description().Summary, d.Description().Detail, rng(src.Subject), rng(src.Context), d.ExtraInfo())
}

// ---------------------------------------------------------------------------
// running a script

type CallResult struct {
	Call     AddCall
	Diags    sourcebundle.Diagnostics
	Panicked any
}

type Run struct {
	H          *Harness
	Target     string
	Builder    *sourcebundle.Builder
	Calls      []CallResult
	Bundle     *sourcebundle.Bundle
	CloseErr   error
	ClosePanic any
}

// DoCall performs one Add call (recovering a panic).
func (r *Run) DoCall(ctx context.Context, c AddCall) CallResult {
	res := CallResult{Call: c}
	f := r.H.Finders[c.Finder%len(r.H.Finders)]
	func() {
		defer func() { res.Panicked = recover() }()
		switch c.Kind {
		case "remote":
			src, err := sourceaddrs.ParseRemoteSource(c.Addr)
			if err != nil {
				panic("harness: bad script address " + c.Addr)
			}
			res.Diags = r.Builder.AddRemoteSource(ctx, src, f)
		case "registry":
			src, err := sourceaddrs.ParseRegistrySource(c.Addr)
			if err != nil {
				panic("harness: bad script address " + c.Addr)
			}
			set, err := AllowedSet(c.Allowed)
			if err != nil {
				panic("harness: bad constraint " + c.Allowed)
			}
			res.Diags = r.Builder.AddRegistrySource(ctx, src, set, f)
		case "final":
			src, err := sourceaddrs.ParseRegistrySource(c.Addr)
			if err != nil {
				panic("harness: bad script address " + c.Addr)
			}
			v, err := versions.ParseVersion(c.Version)
			if err != nil {
				panic("harness: bad version " + c.Version)
			}
			res.Diags = r.Builder.AddFinalRegistrySource(ctx, src.Versioned(v), f)
		}
	}()
	return res
}

// Start creates the target directory and the builder.
func Start(h *Harness, target string) (*Run, error) {
	if err := os.MkdirAll(target, 0755); err != nil {
		return nil, err
	}
	b, err := sourcebundle.NewBuilder(target, h, h)
	if err != nil {
		return nil, err
	}
	return &Run{H: h, Target: target, Builder: b}, nil
}

// Close closes the builder (recovering a panic).
func (r *Run) Close() {
	func() {
		defer func() { r.ClosePanic = recover() }()
		r.Bundle, r.CloseErr = r.Builder.Close()
	}()
}

// Execute runs the whole script sequentially with a tracer and closes.
func Execute(w World, nFinders int, target string, faults []Fault) (*Run, error) {
	h := NewHarness(w, nFinders)
	h.Faults = faults
	r, err := Start(h, target)
	if err != nil {
		return nil, err
	}
	ctx := h.Tracer().OnContext(context.Background())
	for _, c := range w.Script {
		res := r.DoCall(ctx, c)
		r.Calls = append(r.Calls, res)
		if res.Panicked != nil || res.Diags.HasErrors() {
			break
		}
	}
	return r, nil
}

// AnyErrors: did some call report an error diagnostic or panic?
func (r *Run) AnyErrors() bool {
	for _, c := range r.Calls {
		if c.Panicked != nil || c.Diags.HasErrors() {
			return true
		}
	}
	return false
}

// ---------------------------------------------------------------------------
// reference

// semver precedence, written out (independent of List.Sort / NewestInSet)
func preLess(a, b string) bool {
	as, bs := strings.Split(a, "."), strings.Split(b, ".")
	for i := 0; i < len(as) && i < len(bs); i++ {
		if as[i] == bs[i] {
			continue
		}
		an, aerr := parseUint(as[i])
		bn, berr := parseUint(bs[i])
		switch {
		case aerr == nil && berr == nil:
			return an < bn
		case aerr == nil:
			return true // numeric identifiers sort before alphanumeric ones
		case berr == nil:
			return false
		default:
			return as[i] < bs[i]
		}
	}
	return len(as) < len(bs)
}

func parseUint(s string) (uint64, error) {
	if s == "" {
		return 0, fmt.Errorf("empty")
	}
	var n uint64
	for _, c := range s {
		if c < '0' || c > '9' {
			return 0, fmt.Errorf("not numeric")
		}
		n = n*10 + uint64(c-'0')
	}
	return n, nil
}

// Less: precedence order of two versions (build metadata ignored).
func Less(a, b versions.Version) bool {
	switch {
	case a.Major != b.Major:
		return a.Major < b.Major
	case a.Minor != b.Minor:
		return a.Minor < b.Minor
	case a.Patch != b.Patch:
		return a.Patch < b.Patch
	case a.Prerelease == b.Prerelease:
		return false
	case a.Prerelease == "":
		return false
	case b.Prerelease == "":
		return true
	}
	return preLess(string(a.Prerelease), string(b.Prerelease))
}

// Select is the brute-force maximum over offered-and-allowed versions.
// ok=false: no candidate. Among precedence-equal maxima all are returned.
func Select(rp RegistryPkg, allowed versions.Set) (maxima []RegVersion, ok bool) {
	var best *versions.Version
	for _, rv := range rp.Versions {
		v, err := versions.ParseVersion(rv.V)
		if err != nil || !allowed.Has(v) {
			continue
		}
		if best == nil || Less(*best, v) {
			vv := v
			best = &vv
			maxima = []RegVersion{rv}
		} else if !Less(v, *best) {
			maxima = append(maxima, rv)
		}
	}
	return maxima, best != nil
}

// Artifact is a (remote source, finder) pair to analyse.
type Artifact struct {
	Source string // printed remote source address
	Finder int
}

type Selection struct {
	Pkg     string // registry package
	Version string // selected version (one of the maxima)
	Real    string // printed remote source the registry names for it
}

type Expect struct {
	Analysed   map[Artifact]bool
	Packages   map[string]bool // remote packages fetched (printed)
	Versions   map[string]bool // registry packages whose version list is requested
	Selections []Selection
	Error      string // non-empty: the build must report an error (reason)
	// per script call: the remote source the call resolves to ("" for errors)
	CallSources []string
	Ambiguous   bool // precedence-equal maxima with different real sources: several outcomes are acceptable
}

func (w World) remote(pkg string) *RemotePkg {
	for i := range w.Remotes {
		pa, err := sourceaddrs.ParseRemotePackage(w.Remotes[i].Addr)
		if err == nil && pa.String() == pkg {
			return &w.Remotes[i]
		}
	}
	return nil
}

func (w World) registry(pkg string) *RegistryPkg {
	for i := range w.Registry {
		pa, err := sourceaddrs.ParseRegistryPackage(w.Registry[i].Addr)
		if err == nil && pa.String() == pkg {
			return &w.Registry[i]
		}
	}
	return nil
}

// Reference computes what a fault-free build of the script must do, from the
// world data alone (no sourcebundle code involved).
func Reference(w World, nFinders int) Expect {
	e := Expect{Analysed: map[Artifact]bool{}, Packages: map[string]bool{}, Versions: map[string]bool{}}
	selSeen := map[string]bool{}
	type item struct {
		src    sourceaddrs.RemoteSource
		finder int
	}
	var queue []item
	fail := func(why string) {
		if e.Error == "" {
			e.Error = why
		}
	}
	resolveRegistry := func(addr, allowedText string) (sourceaddrs.RemoteSource, bool) {
		src, err := sourceaddrs.ParseRegistrySource(addr)
		if err != nil {
			fail("harness: bad registry address " + addr)
			return sourceaddrs.RemoteSource{}, false
		}
		set, err := AllowedSet(allowedText)
		if err != nil {
			fail("harness: bad constraint " + allowedText)
			return sourceaddrs.RemoteSource{}, false
		}
		pkg := src.Package().String()
		e.Versions[pkg] = true
		rp := w.registry(pkg)
		if rp == nil {
			fail("unknown registry package " + pkg)
			return sourceaddrs.RemoteSource{}, false
		}
		maxima, ok := Select(*rp, set)
		if !ok {
			fail("no offered version of " + pkg + " is allowed by " + allowedText)
			return sourceaddrs.RemoteSource{}, false
		}
		for _, m := range maxima[1:] {
			if m.Real != maxima[0].Real {
				e.Ambiguous = true
			}
		}
		chosen := maxima[0]
		realSrc, err := sourceaddrs.ParseRemoteSource(chosen.Real)
		if err != nil {
			fail("harness: bad real source " + chosen.Real)
			return sourceaddrs.RemoteSource{}, false
		}
		pv, _ := versions.ParseVersion(chosen.V)
		k := pkg + "@" + pv.Comparable().String()
		if !selSeen[k] {
			selSeen[k] = true
			e.Selections = append(e.Selections, Selection{Pkg: pkg, Version: chosen.V, Real: realSrc.String()})
		}
		// join: real sub-path followed by the registry address's sub-path
		sub := realSrc.SubPath()
		if src.SubPath() != "" {
			if sub == "" {
				sub = src.SubPath()
			} else {
				sub = sub + "/" + src.SubPath()
			}
		}
		return realSrc.Package().SourceAddr(sub), true
	}
	for _, c := range w.Script {
		switch c.Kind {
		case "remote":
			src, err := sourceaddrs.ParseRemoteSource(c.Addr)
			if err != nil {
				fail("harness: bad script address")
				e.CallSources = append(e.CallSources, "")
				continue
			}
			queue = append(queue, item{src, c.Finder % nFinders})
			e.CallSources = append(e.CallSources, src.String())
		case "registry", "final":
			allowed := c.Allowed
			if c.Kind == "final" {
				allowed = c.Version
			}
			src, ok := resolveRegistry(c.Addr, allowed)
			if !ok {
				e.CallSources = append(e.CallSources, "")
				continue
			}
			queue = append(queue, item{src, c.Finder % nFinders})
			e.CallSources = append(e.CallSources, src.String())
		}
		if e.Error != "" {
			break // the builder refuses further calls after an error
		}
	}
	for len(queue) > 0 && e.Error == "" {
		it := queue[0]
		queue = queue[1:]
		a := Artifact{it.src.String(), it.finder}
		if e.Analysed[a] {
			continue
		}
		pkg := it.src.Package().String()
		rp := w.remote(pkg)
		if rp == nil {
			fail("unknown remote package " + pkg)
			break
		}
		e.Packages[pkg] = true
		e.Analysed[a] = true
		for _, m := range rp.Modules {
			if m.Sub != it.src.SubPath() {
				continue
			}
			for _, d := range m.Deps[fmt.Sprint(it.finder)] {
				fd := d.Finder % nFinders
				switch d.Kind {
				case "remote":
					src, err := sourceaddrs.ParseRemoteSource(d.Addr)
					if err != nil {
						fail("harness: bad dep")
						continue
					}
					queue = append(queue, item{src, fd})
				case "registry":
					src, ok := resolveRegistry(d.Addr, d.Allowed)
					if ok {
						queue = append(queue, item{src, fd})
					}
				case "local":
					segs := []string{}
					if it.src.SubPath() != "" {
						segs = strings.Split(it.src.SubPath(), "/")
					}
					escaped := false
					for _, s := range strings.Split(d.Addr, "/") {
						switch s {
						case "", ".":
						case "..":
							if len(segs) == 0 {
								escaped = true
							} else {
								segs = segs[:len(segs)-1]
							}
						default:
							segs = append(segs, s)
						}
					}
					if escaped {
						fail("relative dependency " + d.Addr + " leaves the package from " + it.src.String())
						continue
					}
					queue = append(queue, item{it.src.Package().SourceAddr(strings.Join(segs, "/")), fd})
				}
			}
			for _, dg := range m.Diags[fmt.Sprint(it.finder)] {
				if dg.Severity == "E" {
					fail("finder reports an error diagnostic at " + it.src.String())
				}
			}
		}
	}
	return e
}

// ModuleExists: does the package tree contain that sub-path as a module directory?
// RawText renders the placeholder "{xff}" as the byte 0xff, which is not valid
// UTF-8 (commit messages in legacy encodings); cases stay serialisable as JSON.
func RawText(s string) string { return strings.ReplaceAll(s, "{xff}", "\xff") }

// HasDir reports whether the package tree contains the directory sub
// (a module location or a directory among the extra files).
func (p RemotePkg) HasDir(sub string) bool {
	if p.ModuleExists(sub) {
		return true
	}
	for _, n := range p.Extra {
		if n.Kind == "dir" && n.Path == sub {
			return true
		}
	}
	return false
}

func (p RemotePkg) ModuleExists(sub string) bool {
	for _, m := range p.Modules {
		if m.Sub == sub {
			return true
		}
	}
	return false
}

// SortedKeys helper.
func SortedKeys[V any](m map[string]V) []string {
	out := make([]string, 0, len(m))
	for k := range m {
		out = append(out, k)
	}
	sort.Strings(out)
	return out
}

// TargetDir returns a fresh bundle directory inside a scratch arena.
func TargetDir(arena string) string { return filepath.Join(arena, "bundle") }
