"""Job tables: what the driver runs per property and tier (see vcheck.py)."""

def rapid(name, run, checks, shards=1, **kw):
    d = {"name": name, "run": run, "kind": "rapid", "checks": checks, "shards": shards}
    d.update(kw)
    return d

def plain(name, run, shards=1, **kw):
    d = {"name": name, "run": run, "kind": "plain", "shards": shards}
    d.update(kw)
    return d

def fuzz(target, fuzztime, **kw):
    d = {"name": "fuzz-" + target, "kind": "fuzz", "target": target, "fuzztime": fuzztime}
    d.update(kw)
    return d

PROPS = {}

PROPS["C11"] = {
    "pkg": "c11",
    "level": "exploration",
    "rule": ("Exhaustive: every base (local with 0-2 leading '..' and 0-4 names; remote, registry, registry-final with "
             "sub-path depth 0-4) x every string over {n1,n2,.,..} of 1-5 segments rendered as a local address with and "
             "without trailing slash (the parser decides which are accepted), through ResolveRelativeSource and "
             "ResolveRelativeFinalSource, judged by a segment-stack model; all (base, rel1, rel2) triples over the accepted "
             "relatives (<=4 segments quick, <=5 thorough) for composition; all FinalSourceAddr sub-path pairs of depth<=3; "
             "all absolute second arguments. rapid adds longer paths and odd names. Non-trivial = the relative path contains "
             "at least one '..' (or, for finaladdr, both sides carry a sub-path; abs: every case); distinct = hash of the case. "
             "builderjoin: rapid draws a registry package whose single version resolves to a real address with sub-path r and 1-4 "
             "(final) registry requests with sub-paths s in one build; the finder's own call log must show the module at r joined with s "
             "analysed for every request, cached answers included (non-trivial = requests with different sub-paths); or 1-3 relative dependencies "
             "(0-3 leading '..', names such as 'rel..', '..shared', '...', '.hidden') reported by a finder at a module location: each is analysed "
             "at the location's sub-path followed by the relative path per the segment model, and one that climbs above the package root fails the build."),
    "assumptions": ["the reference is a segment stack written from the property text", "bases are rendered from abstract (kind, segments) values and parsed by go-slug's own parsers"],
    "quick": [
        plain("exh-pairs", "^TestExhaustivePairs$", shards=2),
        plain("exh-triples", "^TestExhaustiveTriples$", shards=4),
        plain("exh-final", "^TestExhaustiveFinalAddr$"),
        rapid("rapid", "^TestProp", 20000, shards=3),
        rapid("builder", "^TestBuilderJoin$", 400),
    ],
    "thorough": [
        plain("exh-pairs", "^TestExhaustivePairs$", shards=2),
        plain("exh-triples", "^TestExhaustiveTriples$", shards=8),
        plain("exh-final", "^TestExhaustiveFinalAddr$"),
        rapid("rapid", "^TestProp", 200000, shards=5),
        rapid("builder", "^TestBuilderJoin$", 4000, shards=2),
    ],
}

PROPS["C01"] = {
    "pkg": "c01",
    "level": "exploration",
    "rule": ("rapid draws hostile archives (1-8 entries: names over {a,b,d,l,m,.,..,'',dst,dst-evil} with leading '/', './', doubled and "
             "trailing slashes, absolute names aimed at arena canaries, 'missing/../x' forms, long names; types file/dir/symlink/hardlink/"
             "fifo/char/pax-global/unknown; link targets relative, absolute, through earlier entries, sibling-prefix; repeated and extended "
             "names; hand-written and archive/tar headers) x dst pre-populated or empty x dst spelling (clean, trailing slash, through a "
             "symlinked parent) x fault plan (none, truncation or read error at a drawn offset) x optional allow-list. Oracle: snapshot "
             "(type, mode, size, mtime, ctime, inode, nlink, link target, content hash) of the arena R/l1/l2/l3/{dst,dst-evil,dstX,dst.bak,"
             "outside,...} excluding dst, before vs after Unpack, whatever Unpack returns. Sequence sub-check: 2-3 such archives unpacked one after "
             "the other into the same destination path (optionally emptied in between), later archives re-typing names of earlier ones "
             "(a directory becomes a link leaving dst by way of another link or through the allow-list, dangling links that a later "
             "archive completes), same snapshot oracle after every call; destination spellings include a destination that is itself a symlink and relative ones ('.', './', 'dst', '../dst' with the matching working directory); sequences may use one Packer for every call and switch to a second destination, for which the first one counts as outside. Non-trivial = some entry name or link target "
             "leaves dst lexically, an entry sits at or below an earlier link's name, or the stream is faulted; distinct by case hash."),
    "assumptions": ["dst exists and contains no symlinks placed by the caller (links left by earlier Unpack calls of a sequence are in scope)", "atime is ignored (the snapshot walk itself changes it)"],
    "quick": [rapid("rapid", "^TestPropContainment$", 2500, shards=4), rapid("sequence", "^TestPropSequence$", 600, shards=2)],
    "thorough": [rapid("rapid", "^TestPropContainment$", 30000, shards=14), rapid("sequence", "^TestPropSequence$", 8000, shards=4), fuzz("FuzzUnpackContainment", "120s")],
}

PROPS["C04"] = {
    "pkg": "c04",
    "level": "exploration",
    "rule": ("rapid draws archives biased to cooperating link entries (60% links; targets through earlier entries' names, '.', '..' runs, "
             "sibling-prefix and absolute targets; optional AllowSymlinkTarget) - oracle: after Unpack (nil or error) every symlink found "
             "under dst is resolved component by component with Lstat/Readlink (lexically past the first missing component, hop limit 40) and "
             "must land inside the real path of dst unless allow-listed. Second sub-check: a benign archive with exactly one link that leaves "
             "dst directly (relative '..' run by depth, absolute, sibling-prefix, {DST}/..) must be refused with *IllegalSlugError and the link "
             "must not exist afterwards. Third sub-check: an entry (file, dir or link; several spellings incl. 'missing/../') whose path lies below a "
             "link created earlier by the same archive must make Unpack fail and nothing may appear at the link's target. Non-trivial = allow-list case, sibling-prefix target, a link target traversing another link's name, "
             "or the one-offending-link class; distinct by case hash. Sequence sub-check: 2-3 archives unpacked one after the other into the same "
             "destination (optionally emptied in between, later archives re-typing earlier names and completing dangling links); after every "
             "call every link under dst is followed physically; a link left by an EARLIER call that leads outside only because of what a later call "
             "created is the known finding c04-links-across-unpack-calls (decided by the call in which the escaping link was created or last "
             "changed); an escaping link of the current call is always reported."),
    "assumptions": ["dst has no symlinks placed by the caller (links left by an earlier Unpack into the same destination are in scope: sequence sub-check)", "absolute targets that point into dst are not required to be rejected (existing tested behaviour)"],
    "quick": [rapid("links", "^TestPropLinks$", 2000, shards=3), rapid("reject", "^TestPropReject$", 2500, shards=1), rapid("through", "^TestPropThrough$", 400, shards=1), rapid("reuse", "^TestPropReuse$", 300, shards=1), rapid("via", "^TestPropVia$", 500, shards=1), rapid("sequence", "^TestPropSequence$", 500, shards=2),
              rapid("links-unpriv", "^TestPropLinks$", 1000, shards=2, uid=65534)],
    "thorough": [rapid("links", "^TestPropLinks$", 30000, shards=11), rapid("reject", "^TestPropReject$", 30000, shards=2), rapid("through", "^TestPropThrough$", 5000, shards=1), rapid("reuse", "^TestPropReuse$", 3000, shards=1), rapid("via", "^TestPropVia$", 5000, shards=1), rapid("sequence", "^TestPropSequence$", 6000, shards=4),
                 rapid("links-unpriv", "^TestPropLinks$", 12000, shards=4, uid=65534)],
}

PROPS["C02"] = {
    "pkg": "c02",
    "level": "exploration",
    "rule": ("rapid draws trees (<=22 nodes, depth<=5: files with modes 0000-0777 and empty/64KiB bodies, directories incl. empty and "
             "read-only, relative in-tree links to files/dirs/dangling/chained, fifos and unix sockets; names plain, ignore-relevant, awkward, "
             "non-ASCII, 120-255 byte components; mtimes with .0/.4/.5/.6/.999999999 fractions, pre-1970 and post-2038) x {deref} x {ignore} "
             "- oracle: Unpack(Pack(tree)) into an empty directory has the same relative paths, types, contents, Perm bits, link targets and "
             "(files, dirs) mtime == source mtime rounded to the second; omissions = special files and what the reference ignore matcher "
             "excludes. Root pass, a pass as uid 65534 and a pass under umask 077; the destination is also named below a symlinked parent or is itself a symlink, the source below a symlinked parent; names include line breaks and backslashes, mtimes the first second of the epoch. Non-trivial = tree has an empty dir, link, special file, long/non-ASCII name, mode "
             "other than 0644/0755 or fractional mtime; distinct by case hash."),
    "assumptions": ["the root directory's own mode/time is not archived", "link mtimes are exempt (property text)", "with ignore on, directories the reference excludes are compared leniently (C03 judges them)"],
    "quick": [rapid("root", "^TestPropRoundTrip$", 1500, shards=3), rapid("unpriv", "^TestPropRoundTrip$", 1200, shards=1, uid=65534),
              rapid("umask077", "^TestPropRoundTrip$", 400, shards=1, env={"VERIF_UMASK": "077"}),
              rapid("manyfiles-nofile64", "^TestPropManyFiles$", 12, shards=1, env={"VERIF_NOFILE": "64"})],
    "thorough": [rapid("root", "^TestPropRoundTrip$", 12000, shards=10), rapid("unpriv", "^TestPropRoundTrip$", 12000, shards=4, uid=65534),
                 rapid("umask077", "^TestPropRoundTrip$", 4000, shards=2, env={"VERIF_UMASK": "077"}),
                 rapid("manyfiles-nofile64", "^TestPropManyFiles$", 150, shards=1, env={"VERIF_NOFILE": "64"})],
}

PROPS["C15"] = {
    "pkg": "c15",
    "level": "exploration",
    "rule": ("Exhaustive: every entry sequence of length<=3 over a 18-variant alphabet (files incl. read-only and mode 0000, dirs 0755/0555/"
             "0700/0500, in-dst links, leading '/' and './', PAX extended and global headers, a hard link; USTAR/PAX/GNU) as root and as uid "
             "65534; rapid: sequences of 1-12 entries over 9 paths (incl. a 230-byte PAX name) and Pack-shaped archives. Oracle: a reference "
             "sequential interpreter written from the property text gives the expected tree (paths exactly, type, content, Perm bits, mtime "
             "of files and explicit dirs - ns for PAX, seconds otherwise - link targets); unrepresentable types must make Unpack fail; "
             "sequences the property does not fix (type change at a path, link over an existing path, entry below a link/file, link with "
             "absolute name) may error but must match the model if they succeed. Locked-directory sub-check (matters in the unprivileged and umask jobs): "
             "a directory recorded without search permission (0000-0400, 0100-0300) with a child directory before or after it - Unpack errs, or, "
             "if it returns nil, parent and child carry exactly the recorded mode and time. Non-trivial = duplicate path, child before parent dir, "
             "read-only file, restrictive dir mode, PAX header, leading '/' or './', unrepresentable type; distinct by case hash."),
    "assumptions": ["implicit parent directories' mode/mtime are unspecified", "special mode bits are not compared", "unprivileged: a directory without owner r-x may legitimately make Unpack fail"],
    "quick": [plain("exh-root", "^TestExhaustive$", shards=3, env={"VERIF_C15_MAXLEN": 3}),
              plain("exh-unpriv", "^TestExhaustive$", shards=3, uid=65534, env={"VERIF_C15_MAXLEN": 3}),
              rapid("rapid-root", "^TestProp", 2000, shards=2), rapid("rapid-unpriv", "^TestProp", 1500, shards=1, uid=65534),
              rapid("rapid-umask077", "^TestProp", 500, shards=1, env={"VERIF_UMASK": "077"}),
              rapid("concurrentunpack", "^TestRaceConcurrentUnpack$", 30, shards=2, race=True)],
    "thorough": [plain("exh-root", "^TestExhaustive$", shards=6, env={"VERIF_C15_MAXLEN": 4}),
                 plain("exh-unpriv", "^TestExhaustive$", shards=6, uid=65534, env={"VERIF_C15_MAXLEN": 4}),
                 rapid("rapid-root", "^TestProp", 15000, shards=8), rapid("rapid-unpriv", "^TestProp", 15000, shards=4, uid=65534),
                 rapid("rapid-umask077", "^TestProp", 5000, shards=2, env={"VERIF_UMASK": "077"}),
                 rapid("concurrentunpack", "^TestRaceConcurrentUnpack$", 400, shards=4, race=True)],
}

PROPS["C12"] = {
    "pkg": "c12",
    "level": "fault_enumeration",
    "rule": ("Per generated subject every fault position is enumerated: (a) for a generated tree, Pack into a writer that fails (short write + "
             "error) at EVERY byte offset of the clean output (<=4KiB; every Write-call boundary +-1 and midpoint beyond) must return a "
             "non-nil, non-IllegalSlug error (likewise Bundle.WriteArchive of a built bundle: every offset up to 2 KiB, beyond that every Write-call boundary and the first and last 300 bytes); (b) for a generated well-formed archive, Unpack from a reader that is truncated or returns an "
             "error at EVERY byte offset (also with 1-, 7- and 512-byte reads) must return a non-policy error, or - if nil - the destination "
             "equals the tree of the complete archive; policy rejections (escaping names and links, entry kinds a slug may not contain, entries placed through a link of the archive, links leaving by way of another link) must be *IllegalSlugError; (c) bundle "
             "builds: see DESIGN. Non-trivial = a fault that lands after progress was made (offset>0 for writers, >20 bytes for readers) / a "
             "policy rejection; distinct = (subject hash, offset, kind)."),
    "assumptions": ["a crash is modelled as an observation at a callback boundary, not a kill between two syscalls"],
    "quick": [rapid("concurrentpoison", "^TestPropConcurrentPoison$", 60, shards=1), rapid("archivewriter", "^TestPropArchiveWriter$", 6, shards=3), rapid("packwriter", "^TestPropPackWriter$", 12, shards=3), rapid("unpackreader", "^TestPropUnpackReader$", 12, shards=3),
              rapid("policy", "^TestPropPolicy$", 600, shards=1), rapid("sourcevanish", "^TestPropSourceVanish$", 300, shards=1), rapid("bundlefaults", "^TestPropBundleFaults$", 25, shards=4),
              rapid("diagnostics", "^TestPropDiagnostics$", 800, shards=1), rapid("worlderrors", "^TestPropWorldErrors$", 1500, shards=1)],
    "thorough": [rapid("concurrentpoison", "^TestPropConcurrentPoison$", 1500, shards=2), rapid("archivewriter", "^TestPropArchiveWriter$", 60, shards=4), rapid("packwriter", "^TestPropPackWriter$", 150, shards=5), rapid("unpackreader", "^TestPropUnpackReader$", 150, shards=5),
                 rapid("policy", "^TestPropPolicy$", 20000, shards=1), rapid("sourcevanish", "^TestPropSourceVanish$", 10000, shards=2), rapid("bundlefaults", "^TestPropBundleFaults$", 400, shards=8),
                 rapid("diagnostics", "^TestPropDiagnostics$", 20000, shards=2), rapid("worlderrors", "^TestPropWorldErrors$", 30000, shards=2)],
}

PROPS["C03"] = {
    "pkg": "c03",
    "level": "exploration",
    "rule": ("rapid draws a tree (<=16 nodes + members of .git/, .terraform/plugins/, .terraform/modules/) and a rule file of 0-8 lines, 60% "
             "of the patterns derived from the tree's own paths (segments kept, turned into '*', 'x*', '?', or collapsed into '**'; prefix or "
             "suffix of the path; anchored or not; directory form or not), the rest from a pattern grammar over the same name pool incl. "
             "names with + ( ) { } | ^ $; '!' negation, comments, blank lines, surrounding blanks, CRLF, or no rule file. Four legs: Pack with "
             "ignore on; ignore off; Pack with dereferencing where one top-level directory is reached through a link to an external "
             "directory; bundle build of a fetched package. Oracle: every non-directory path is shipped iff the segment-wise reference matcher "
             "does not exclude its own path. Non-trivial = a rule from the file matches a path and the file has a negation, anchor, '**', "
             "wildcard or regex-special literal; distinct by case hash."),
    "assumptions": ["'[...]' classes, '\\\\' escapes and '**' inside a segment are outside the generated language", "directory entries are judged only when no negation is present and both forms are excluded", "deref leg: cases where the link itself is excluded by name are counted, not judged"],
    "quick": [rapid("pack", "^TestPropIgnorePack$", 900, shards=2), rapid("deref", "^TestPropIgnoreDeref$", 900, shards=2),
              rapid("bundle", "^TestPropIgnoreBundle$", 900, shards=2), rapid("off", "^TestPropIgnoreOff$", 400, shards=1)],
    "thorough": [rapid("pack", "^TestPropIgnorePack$", 15000, shards=5), rapid("deref", "^TestPropIgnoreDeref$", 15000, shards=4),
                 rapid("bundle", "^TestPropIgnoreBundle$", 15000, shards=4), rapid("off", "^TestPropIgnoreOff$", 8000, shards=1)],
}

PROPS["C05"] = {
    "pkg": "c05",
    "level": "exploration",
    "rule": ("rapid draws trees (<=16 nodes, 38% links) whose links are drawn by intent - in-tree relative/absolute, out-of-tree relative/"
             "absolute to files and directories, sibling-prefix (../src-evil), chains (in->out, out->out), dangling, re-entering the root by "
             "name - inside an arena with src-evil/, ext/ (optionally with links of its own) and x/y/z/ext2/ carrying OUT: tokens, x {deref} x "
             "{ignore} x allow-list (none, absolute prefix, relative prefix, exact, near-miss prefixes). Oracle on the decoded slug: no OUT: "
             "content with deref off; OUT: content only at or below an out-of-tree link with deref on; an out-of-tree, non-allow-listed, "
             "visited link makes Pack fail when deref is off and is never stored as a link; entry names are clean relative paths; relative "
             "link entries stay inside the archive root at their own position; an illegal-slug error only when some link leaves the tree; "
             "Unpack accepts the slug when all links are relative - also into a destination below a symlinked parent; a dereferenced link's entries equal what the operating system reaches through it (content, mode; for directories: every entry exists there); links are classified by their textual AND their physical target (a link that reads as in-tree and leaves it by way of an in-tree link to '.' is out-of-tree); the source is sometimes named through a relative root link from a directory holding a decoy. Deeplink sub-check: source named through a symlinked directory whose target lies deeper than its name, link climbing past it. Non-trivial = tree has an out-of-tree, sibling-prefix, chained, directory "
             "or root-re-entering link; distinct by case hash."),
    "assumptions": ["absolute in-tree links stored with their absolute target are existing tested behaviour", "link cycles are C19's domain"],
    "quick": [rapid("leak", "^TestPropLeak$", 1800, shards=4), rapid("deeplink", "^TestPropDeepLink$", 100, shards=1)],
    "thorough": [rapid("leak", "^TestPropLeak$", 15000, shards=14), rapid("deeplink", "^TestPropDeepLink$", 1000, shards=1)],
}

PROPS["C20"] = {
    "pkg": "c20",
    "level": "exploration",
    "rule": ("Same tree/option generator as C05 (half of the cases without out-of-tree links): empty trees, only directories, links of every "
             "kind, dereferenced files and directories (also nested, also an external directory whose walk fails after two files), ignored subtrees, empty and 64KiB files. Oracle: Meta.Files equals the "
             "decoded entry names in order; Meta.Size equals the sum of header sizes of regular entries and the sum of body bytes read back; "
             "non-regular entries carry no body. Non-trivial = a dereferenced link, ignore processing on, an empty file, an empty tree or "
             "links; distinct by case hash. Shrinking sub-check: a 40-300 KiB incompressible file is truncated (or appended to) by the writer handed "
             "to Pack once 1 B - 60 KB of output have arrived; Pack may fail, but if it returns nil the same three equalities must hold."),
    "assumptions": ["cases where Pack legitimately fails (illegal link without deref) are counted, not judged"],
    "quick": [rapid("meta", "^TestPropMeta$", 1500, shards=3), rapid("shrinking", "^TestPropShrink$", 150, shards=1), rapid("reuse", "^TestPropReuse$", 500, shards=1)],
    "thorough": [rapid("meta", "^TestPropMeta$", 15000, shards=10), rapid("shrinking", "^TestPropShrink$", 1500, shards=1), rapid("reuse", "^TestPropReuse$", 8000, shards=2)],
}

PROPS["C16"] = {
    "pkg": "c16",
    "level": "exploration",
    "replay_race": True,
    "rule": ("Metamorphic. Baseline = decoded entries (names, order, type, mode, mtime, link target, body) of Pack(clean absolute path) from "
             "cwd '/'. (1) spelling: 25 variants per generated tree (among them a source below a symlinked parent directory and a two-link chain across directories) - relative spellings from the parent, from inside the tree and from an "
             "unrelated cwd, trailing slash, '.'/'..' segments, doubled slashes, and the directory reached through a symlink with absolute "
             "target, with a target relative to the link's directory (from several cwds), a chain of two links, link + trailing slash. (2) "
             "history: 0-5 earlier operations on the same Packer value (Packs of other trees incl. rule files starting with a negation, many "
             "rules, unreadable rule file, trees with links, the same tree; Unpack; a bundle build) then the Pack under test, with the same and "
             "a fresh Packer. (3) concurrency in a -race binary: 2-8 goroutines pack different (tree, rules) pairs 1-4 times each BEFORE any "
             "sequential use in that process (member 0's rule file starts with '!', member 1 has none), each result compared with its "
             "sequential baseline; a race report with a go-slug frame is a violation. History operations include Packs that fail (nested dereferencing loop, illegal link after other entries); trees may link to a directory outside. Non-trivial = tree with links or ignore processing, a "
             "non-empty history, or a concurrent round; distinct by case hash."),
    "assumptions": ["the harness does not own the Go scheduler: interleavings are sampled", "cwd is process-global, spelling variants run sequentially"],
    "quick": [rapid("spelling", "^TestPropSpelling$", 150, shards=3), rapid("history", "^TestPropHistory$", 250, shards=2), rapid("deepderef", "^TestPropDeepDeref$", 14, shards=1), rapid("danglingroot", "^TestPropDanglingRoot$", 20, shards=1),
              rapid("concurrent", "^TestPropConcurrent$", 12, shards=5, race=True)],
    "thorough": [rapid("spelling", "^TestPropSpelling$", 3000, shards=6), rapid("history", "^TestPropHistory$", 3000, shards=4), rapid("deepderef", "^TestPropDeepDeref$", 110, shards=1), rapid("danglingroot", "^TestPropDanglingRoot$", 100, shards=1),
                 rapid("concurrent", "^TestPropConcurrent$", 120, shards=14, race=True)],
}

PROPS["C19"] = {
    "pkg": "c19",
    "level": "exploration",
    "rule": ("(iv) Pack (all option sets) and bundle builds on generated trees with hazards drawn from 15 families - in-tree and external self "
             "loops, 2-cycles, directory cycles through external directories (to '.', '..', own name, back to the root), links to fifos, "
             "sockets, /dev/null, /dev/zero, /proc/self/fd, 60-link chains, odd names - and rule files mixing degenerate lines (blank, "
             "whitespace-only, '!', '/', '#', '**', '!/', '[', '\\\\', NUL, invalid UTF-8, 5000-char, random punctuation) run in a watched worker "
             "subprocess (64MiB stack cap): a recovered panic, a worker death with go-slug frames, or silence for 12s with a go-slug frame in the "
             "SIGQUIT dump is a violation; (ii) Unpack on hostile archives with byte mutations (checksums repaired), truncation, trailing "
             "garbage, empty//NUL/huge-size entries, and raw fuzz bytes; (i) every address parser, printer and resolver on grammar, mutated "
             "and fuzzed strings; (iii) OpenDir and all lookups on generated manifests. Non-trivial = the input reaches the code under test "
             "(valid gzip+tar framing, a hazard or rule file present, a string accepted by url/regaddr pre-parsing, JSON that unmarshals); "
             "distinct by case hash."),
    "assumptions": ["documented panics (SourceAddr with an invalid sub-path, Must*, use of a closed builder) are not entry points", "a hang is declared only with a go-slug frame in the goroutine dump; otherwise the run is inconclusive"],
    "quick": [rapid("tree", "^TestPropTree$", 500, shards=2, timeout=900), rapid("tree-unpriv", "^TestPropTree$", 250, shards=1, timeout=900, uid=65534), rapid("bytes", "^TestPropUnpackBytes$", 2000, shards=2),
              rapid("addrs", "^TestPropAddr$", 50000, shards=3), rapid("manifests", "^TestPropManifests$", 8000, shards=3)],
    "thorough": [rapid("tree", "^TestPropTree$", 8000, shards=6, timeout=7000), rapid("tree-unpriv", "^TestPropTree$", 3000, shards=2, timeout=7000, uid=65534), rapid("bytes", "^TestPropUnpackBytes$", 40000, shards=4),
                 rapid("addrs", "^TestPropAddr$", 400000, shards=4), rapid("manifests", "^TestPropManifests$", 100000, shards=4),
                 fuzz("FuzzUnpackBytes", "120s"), fuzz("FuzzAddr", "120s"), fuzz("FuzzManifest", "120s")],
}

PROPS["C06"] = {
    "pkg": "c06",
    "level": "exploration",
    "rule": ("(1) strings from a grammar of every accepted kind (local; registry with/without host, port, IDN host; final registry; git with "
             "https/ssh, ports, IPv6 literals, refs; archives by suffix or archive= argument, http:: type; github/gitlab shorthand), 40% of "
             "them mutated (case flips, inserted escapes, '//', '?', '#', '@', userinfo, scheme/type swaps, odd segments), through each of the 8 "
             "public parsers; every accepted value and every value reachable from it (Package, Unversioned) must print to a string that the "
             "parser of its kind and the general parsers read back as an equal value of the same kind, printing again identically. (2) derived "
             "values: ResolveRelativeSource/FinalSource with relative paths whose segments need escaping, Versioned, FinalSourceAddr, "
             "RemotePackage.SourceAddr. (3) pairs of spellings: values equal iff they print the same. Thorough: native fuzzing of all parsers. "
             "Non-trivial = string with escape, query, sub-path, shorthand, upper case, port or version, or a derived value / two spellings; "
             "distinct by case hash."),
    "assumptions": ["strings are valid UTF-8", "the general parsers' documented refusal of surrounding blanks is honoured"],
    "quick": [rapid("parsed", "^TestPropParsed$", 50000, shards=3), rapid("derived", "^TestPropDerived$", 50000, shards=3), rapid("pairs", "^TestPropPairs$", 40000, shards=2)],
    "thorough": [rapid("parsed", "^TestPropParsed$", 400000, shards=5), rapid("derived", "^TestPropDerived$", 400000, shards=5), rapid("pairs", "^TestPropPairs$", 300000, shards=3),
                 fuzz("FuzzSourceRoundTrip", "150s")],
}

PROPS["C07"] = {
    "pkg": "c07",
    "level": "exploration",
    "rule": ("Three input classes through ParseSource, ParseFinalSource, ParseRemoteSource and ParseRemotePackage: documented-grammar strings "
             "(must be accepted as remote addresses, also with upper-case type/scheme), single-rule violations from a list of 34 (http, git://, "
             "file, userinfo forms, second ref, foreign git key, checksum, archive=zip, two archive, no archive suffix, '.', '..', empty "
             "sub-path segments, unknown/redundant type, no scheme, short shorthand; must be rejected), and mutated strings (if accepted, the "
             "policy holds). Constructor route: MakeRemoteSource(type, URL, sub-path) from valid parts with zero, one or two fields edited "
             "(type, User, Scheme, RawQuery incl. ';' pairs, Path, sub-path): unedited must be accepted, accepted ones satisfy the policy and "
             "parse back, the caller's URL is not modified. Addresses derived by relative resolution keep the policy. Oracle: an independent "
             "predicate over SourceType/URL/SubPath accessors. Non-trivial = non-canonical spelling, reject-class or mutated input, constructor "
             "or derived route; distinct by case hash."),
    "assumptions": ["the must-accept grammar is limited to forms shown in doc comments and the test table", "a four-part gitlab.com address is a registry address (documented precedence)"],
    "quick": [rapid("strings", "^TestPropStrings$", 50000, shards=3), rapid("make", "^TestPropMake$", 50000, shards=2), rapid("resolved", "^TestPropResolved$", 30000, shards=1)],
    "thorough": [rapid("strings", "^TestPropStrings$", 400000, shards=6), rapid("make", "^TestPropMake$", 400000, shards=4), rapid("resolved", "^TestPropResolved$", 200000, shards=2), fuzz("FuzzPolicy", "120s")],
}

WORLD_RULE = ("Worlds are data: 1-4 remote packages (git/https addresses with refs, ports, archive arguments; 1-3 module locations each, also "
              "with names needing care when printed), 0-3 registry packages with 1-5 offered versions in drawn listing order (pre-releases, "
              "gaps, optional deprecation notes; the real source of each version is a remote package plus optional sub-path), a dependency "
              "table embedded in the package trees (per module location and finder: remote, registry(+allowed set) and relative dependencies "
              "- chains, diamonds, cycles, self-references, cycles through registry hops, absent sub-paths), 2 finders (distinct pointers), "
              "optional byte-identical or one-file-different clones under another address, fetcher metadata, and a script of 1-4 Add calls "
              "(AddRemoteSource, AddRegistrySource, AddFinalRegistrySource). The harness fetcher materialises the package tree, the registry "
              "client and finders answer from the world, everything is logged. ")

PROPS["C08"] = {
    "pkg": "c08",
    "level": "exploration",
    "rule": (WORLD_RULE + "Oracle: an independent reference computes the closure of (remote source, finder) pairs and the brute-force version "
             "selections; worlds for which it predicts no error must build without error diagnostics and, after Close, every added or "
             "discovered source is looked up: path inside the bundle root, exists iff the package has that sub-path, holds the fetched "
             "content (module token and package marker); registry lookups equal the lookup of the registry's real address joined with the "
             "sub-path; metadata, registry source addresses and versions are retrievable unchanged. Non-trivial = closure of >=2 packages "
             "with a registry hop, relative dependency or repeated analysis; distinct by case hash."),
    "assumptions": ["dependency information is a function of package content (finders read files planted in the tree)", "nil metadata and empty metadata are equivalent"],
    "quick": [rapid("complete", "^TestPropComplete$", 800, shards=6)],
    "thorough": [rapid("complete", "^TestPropComplete$", 8000, shards=14)],
}

PROPS["C14"] = {
    "pkg": "c14",
    "level": "exploration",
    "rule": ("Exhaustive: every assignment of {none, remote, via registry} to the n*n ordered pairs of n module locations (n=2 in quick: 81 "
             "graphs; n=3 in thorough: 19683 graphs - all chains, diamonds, self-references and cycles incl. cycles through registry hops) x "
             "{all locations in one package, one package each} x {single Add, Add with repeats}; plus rapid worlds: " + WORLD_RULE +
             "Oracle over the call logs: each closure package fetched exactly once and no other, each registry version list and each selected "
             "version's source address requested exactly once, the multiset of analysed (source, finder) pairs equals the reference closure, "
             "every trace start is followed by exactly one matching success/failure with the real call in between, 'already' only after an "
             "earlier success; termination is decided by a call budget (10x the reference bound), not a clock. With one injected fetch/registry/finder fault (or a registry answering a version query successfully with an empty list) the trace must stay bracketed and an 'already' event must still refer to completed work. Non-trivial = cycle/diamond, "
             "duplicate Add or multi-artifact closure; distinct by case hash."),
    "assumptions": ["only fault-free worlds for which the reference predicts no error are judged (C12 takes the rest)"],
    "quick": [plain("exh2", "^TestExhaustiveGraphs$", shards=1, env={"VERIF_C14_LOCS": 2}), rapid("once", "^TestPropOnce$", 800, shards=4), rapid("faultedtrace", "^TestPropFaultedTrace$", 800, shards=2)],
    "thorough": [plain("exh3", "^TestExhaustiveGraphs$", shards=10, env={"VERIF_C14_LOCS": 3}), rapid("once", "^TestPropOnce$", 12000, shards=6), rapid("faultedtrace", "^TestPropFaultedTrace$", 12000, shards=3)],
}

PROPS["C17"] = {
    "pkg": "c17",
    "level": "exploration",
    "rule": ("rapid draws 1-2 registry packages offering 1-8 distinct versions from a pool with gaps, pre-releases (alpha/beta/rc), two-digit "
             "components and build-metadata twins, in any listing order, each with its own real source and optional deprecation note, and 1-4 "
             "requests in one build against them - Add calls, or 1-4 registry dependencies reported at once by the root module of a fetched package, often the same source under different constraints - (allowed sets: all, released, exact, ranges, pessimistic, exclusions, disjoint/empty ones; "
             "AddFinalRegistrySource with offered and unoffered versions; sub-paths) to exercise cache reuse. Oracle: brute-force maximum "
             "(own semver precedence) over offered-and-allowed versions: each request's newest allowed version is in the bundle with exactly "
             "the registry's source address and deprecation note for that version and resolves to the same path as that address; the bundle "
             "and the registry's source-address log contain nothing but such maxima; no candidate => error diagnostic, every later call and "
             "Close panic (no bundle). Non-trivial = >=3 offered versions not listed in ascending order with a constraint excluding the "
             "overall newest, or several requests in one build; distinct by case hash."),
    "assumptions": ["set membership (allowed.Has) is taken from go-versions", "among build-metadata twins any maximal one is accepted as 'the' selection"],
    "quick": [rapid("select", "^TestPropSelect$", 2500, shards=6)],
    "thorough": [rapid("select", "^TestPropSelect$", 25000, shards=12)],
}

PROPS["C13"] = {
    "pkg": "c13",
    "level": "exploration",
    "replay_race": True,
    "rule": (WORLD_RULE + "(a) ALL permutations of the Add script (<=4 calls, <=24 orders) and (b) reversed / rotated dependency report order "
             "inside the finders: every run must give identical manifest bytes, ChecksumV1, top-level directory names, relative file paths "
             "and contents, forward lookups relative to the root and SourceForLocalPath answers (each asked 6 times on one bundle object); (c) "
             "packages with identical path->content maps share one directory, any difference => different directories (clone and "
             "one-file-different clone pairs, incl. equally long alias addresses); (d) in a -race binary one goroutine per Add call on one "
             "builder with a drawn yield pattern in the harness callbacks: same fingerprint as the sequential build, each package fetched "
             "once, a race report with a go-slug frame is a violation. Non-trivial = >=2 Add calls, a coalescing pair, or a concurrent round; "
             "distinct by case hash."),
    "assumptions": ["schedules are sampled (the builder holds one mutex while draining its queues)", "modes and empty directories are outside 'same file paths and contents'"],
    "quick": [rapid("order", "^TestPropOrder$", 90, shards=5), rapid("concurrent", "^TestPropConcurrent$", 40, shards=4, race=True)],
    "thorough": [rapid("order", "^TestPropOrder$", 1500, shards=8), rapid("concurrent", "^TestPropConcurrent$", 400, shards=8, race=True)],
}

PROPS["C09"] = {
    "pkg": "c09",
    "level": "exploration",
    "rule": (WORLD_RULE + "Packages additionally carry generated extra files: docs, executables, read-only and world-writable files, empty and 0777 "
             "directories, in-package links to files (and, rarely, to directories), commit metadata incl. message without id. For every world "
             "that builds (the target directory in a quarter of the cases named through a symlinked parent directory): b1 = Close(), b2 = OpenDir(target), b3 = ExtractArchive(WriteArchive(b1)) into a fresh directory must agree on "
             "RemotePackages and metadata, RegistryPackages, versions, source addresses, deprecation notes, ChecksumV1, every lookup (forward "
             "for known, unknown and sub-path addresses, registry and final-registry forms, reverse on sampled paths) made relative to each "
             "root, and b1's and b3's directory trees must have the same paths, types, contents, permission bits and link targets. "
             "Non-trivial = registry metadata, package metadata or extra files present; distinct by case hash."),
    "assumptions": ["worlds whose build fails for stricter reasons (checksum refuses links to directories) are counted, not judged", "file times are not part of 'the same files'"],
    "quick": [rapid("survive", "^TestPropSurvive$", 400, shards=4), rapid("survive-umask027", "^TestPropSurvive$", 100, shards=1, env={"VERIF_UMASK": "027"})],
    "thorough": [rapid("survive", "^TestPropSurvive$", 5000, shards=12), rapid("survive-umask027", "^TestPropSurvive$", 1200, shards=2, env={"VERIF_UMASK": "027"})],
}

PROPS["C10"] = {
    "pkg": "c10",
    "level": "exploration",
    "rule": ("rapid draws 1-3 packages connected by dependencies; the fetcher plants up to 5 hazards per package from 37: relative and absolute "
             "links inside the package, to the bundle root ('..', '{fetch dir}/..'), to a sibling package directory (found by listing the "
             "parent), to the future manifest, out of the bundle (relative and absolute, to files, directories and a fifo), chains (in and "
             "out), dangling links, self loops, links whose target a rule deletes (sorting before and after the target), links that a rule "
             "deletes, links to directories matched by directory rules, fifos and sockets (also below ignored directories); rule files from "
             "15 lines incl. negations. Oracle: the arena outside the target - which holds the process's working directory and TMPDIR during the build - is unchanged; if the build succeeds every entry of every "
             "package directory is a regular file, a directory, or a link that physically resolves to an existing regular file/directory "
             "inside that package directory, no file the reference ignore matcher excludes remains, no .tmp-* directory is left; a hazard "
             "that is definitely illegal (special file, out-of-bundle/climbing/dangling link) and not ignored, in a reachable package, must "
             "make an Add call fail. Non-trivial = a planted link or special file; distinct by case hash."),
    "assumptions": ["builds failing for stricter reasons (checksum refuses links to directories or dangling links) are fine"],
    "quick": [rapid("sanitised", "^TestPropSanitised$", 2000, shards=6)],
    "thorough": [rapid("sanitised", "^TestPropSanitised$", 15000, shards=12)],
}

PROPS["C18"] = {
    "pkg": "c18",
    "level": "exploration",
    "rule": ("(1) manifest documents generated field by field: format 1/0/2/missing/string/float/huge, package entries with 'local' drawn from "
             "valid names and 29 hostile ones ('', '.', '..', 'a/b', '/abs', 'x/../y', '..foo', 'a\\b', '../sibling', './x', 'x/', NUL, 300 "
             "bytes, the manifest's own name, duplicates and aliases), sources valid / invalid / with sub-path / with credentials, registry "
             "entries with valid and invalid versions and real sources, and raw JSON degenerates: if OpenDir succeeds no 'local' has a "
             "separator or is '', '.' or '..', and every forward lookup (remote, registry, final registry, with sub-paths) returns a path "
             "strictly inside the root; (2) on those and on real bundles built from worlds with aliases: for every package directory and "
             "existing / non-existing / non-ASCII tails, spelled absolute, relative to the cwd and with '.'/'..' segments, "
             "SourceForLocalPath succeeds and LocalPathForSource of its result is Clean(Abs(path)); the root, the manifest file, unknown "
             "directories, (every manifest is opened twice: at its directory and through a symlink to it, with paths spelled through the root as given; forward results may lie below either spelling of the root) siblings sharing the root's name prefix, a package directory's name in another letter case and paths above the root are refused. Thorough: native fuzzing of manifest "
             "bytes. Non-trivial = hostile 'local' or a real bundle; distinct by case hash."),
    "assumptions": ["file names are valid UTF-8 (an address is text)"],
    "quick": [rapid("manifest", "^TestPropManifest$", 6000, shards=4), rapid("inverse", "^TestPropInverse$", 500, shards=4)],
    "thorough": [rapid("manifest", "^TestPropManifest$", 60000, shards=8), rapid("inverse", "^TestPropInverse$", 4000, shards=6), fuzz("FuzzOpenDirManifest", "120s")],
}

# Additions to the rule texts made while the generators grew (kept apart from the long literals above).
RULE_ADDENDA = {
    "C03": ("Rule files also come without final line terminator, with a 70000-byte comment line (unreadable as a whole: the defaults apply; "
            "the bundle leg refuses loudly and is not judged) and after a warm-up Pack of the same directory by the same Packer under the rule '*'; "
            "names include line breaks (the bundle leg refuses those loudly)."),
    "C06": ("Derived values also come from MakeRemoteSource with source types in every letter case and IPv6 hosts; segments include line "
            "breaks and (through a placeholder) bytes that are not UTF-8."),
    "C09": ("The directories used held other bundles before and were opened as such (nothing remembered about a path may come back); the "
            "archive is also extracted into a relative directory name and into '.', with the working directory moving on; a pass under umask 027."),
    "C10": ("The target directory is also named through a symlinked parent, or relative to a working directory that changes after NewBuilder "
            "(a same-named decoy exists in the later one); rule lines include root-anchored ones and negation-then-exclusion orders; packages "
            "may be byte-identical clones."),
    "C12": ("Concurrentpoison sub-check: a failing Add call while further Add calls on the same builder wait for it (started 0-600 us later): "
            "nothing may appear outside the target directory (working directory and TMPDIR lie in the observed arena) and Close must refuse."),
    "C16": ("Concurrent members either make their own Packer per call, share one Packer value, or use the package-level Pack function with "
            "their own dereference flag."),
    "C07": ("The constructor route also sets URL.Opaque, URL.Fragment and query strings containing '#' on hand-built URL values."),
    "C20": ("Reuse sub-check: one Packer value packs a tree after a Pack of another tree failed half-way, or two Packs on it overlap "
            "(the first held at its first write while the second runs); the Meta of each call must describe that call's slug. "
            "Non-regular entries must record size 0; trees include hard links."),
    "C19": ("Tree hazards include rule files that are not regular files and directories / files without read or search permission "
            "(an unprivileged pass of the tree sub-check)."),
    "C18": ("Relative paths are asked from several working directories of one Bundle value (each package directory, then outside)."),
    "C15": ("Entries for the archive root ('./', '.', '/', 'a/..') prescribe mode and time of the destination directory; global "
            "headers also come with directories in their name (nothing may be created for them); a sixth of the archives are gzip "
            "streams of two members cut at an entry boundary."),
    "C01": ("Also: destinations that do not exist yet (with root entries that are not directories), unclean absolute destination spellings."),
    "C02": ("Also: hard links, link targets with backslashes, unclean absolute destination spellings ('//', '/./', '/dst/../dst')."),
    "C11": ("The builder check also adds the declaring file itself as the artifact (relative addresses resolve against the address analysed)."),
    "C13": ("Worlds include near-clones that differ only in where an in-package link leads, twin versions pinned by final calls and "
            "unpinned requests among twins leading to different packages."),
    "C14": ("A quarter of the rapid cases (a fifth of the exhaustive ones) make their Add calls from concurrent goroutines; the harness "
            "fetcher edits the URL it is given; registry answers are built through MakeRemoteSource."),
    "C08": ("One package host has an upper-case letter; commit messages include bytes that are not UTF-8 (known finding); clones that differ "
            "in an empty directory only (known finding); the general lookup is compared with the specific ones."),
    "C04": ("An unprivileged pass of the links sub-check, with scenario families that put the offending link into a directory recorded as read-only."),
}
RULE_ADDENDA_R7 = {
    "C01": ("Destinations may already hold names that are hard links of files outside (replacing such a name changes only link count and "
            "change time of the outside file, which are masked for exactly those files); entry names that pass through a link of the archive and step up ('l -> .', 'l/../x')."),
    "C02": ("Manyfiles sub-check: 90-260 files packed and unpacked in a process limited to 64 open files."),
    "C03": ("Names shared by rules and trees include non-ASCII ones and names that need a backslash in a rule ('#scratch#', '!NOTES.txt', 'star*', 'q?'); "
            "an eighth of the rule files are reached through a symlink '.terraformignore -> <file of the tree>'."),
    "C04": ("An allow-listed reading only covers a link if the operating system goes where the text says (scenario family: 'a -> .' with "
            "'b -> a/../../outside/f' under AllowSymlinkTarget('../outside'))."),
    "C05": ("Planted families: a link that leaves the tree only by way of links of the tree, met inside a dereferenced directory (a second name of an "
            "in-tree directory, or an external directory); names include leading dots ('..dots', '...') and a non-UTF-8 byte."),
    "C09": ("Reverse lookups are asked six times on each bundle (the answer is a function of the bundle, also where packages share a directory)."),
    "C12": ("Sourcevanish sub-check: the output writer removes the last listed entry of the source root when the first byte arrives (the walk has "
            "listed it, it can no longer be read): Pack must return an error. Policy sub-check: up to two further offending links behind the first."),
    "C14": ("Faultedtrace also cancels the context at callback boundary 1-14 and lets the n-th download deliver an absolute link (refused after the "
            "download succeeded); a failure event before the real call is accepted, a success event is not."),
    "C16": ("Deepderef sub-check: 34-44 nested dereferenced directories packed through plain, trailing-slash, dot-segment, relative and 1-4-link spellings "
            "(the nesting limit may not depend on the spelling). Danglingroot sub-check: a source link whose relative target names nothing beside the link, from five working directories (known finding)."),
    "C18": ("Probed file names include '?', '#' and '%'; every manifest is also opened by a relative directory name from a working directory that is left afterwards."),
    "C19": ("Raw manifests include null elements in the package and registry arrays."),
    "C20": ("Names include a non-UTF-8 byte and leading dots."),
}
RULE_ADDENDA_R8 = {
    "C01": ("Destinations may already hold symlinks to outside files and directories (dangling ones too)."),
    "C03": ("Rule files contain lines that are not patterns (a bracket never closed): Pack and the reference ignore them, the bundle leg refuses loudly."),
    "C04": ("Links that were under the destination before the first call and are still as they were are not Unpack's."),
    "C08": ("Finders also report warning diagnostics."),
    "C09": ("The listings are taken again after all lookups (looking things up changes nothing); worlds pin build-metadata twins, and other spellings of a bundled version are asked six times."),
    "C13": ("Finders also report warning diagnostics."),
    "C16": ("A shared Packer carries allow lists of length 1-8."),
    "C18": ("A refused manifest is opened a second time and must be refused again."),
    "C19": ("Tree hazards include links that run through themselves with a remainder; an 'opendir' mode offers directories whose manifest is a fifo, a link to a fifo or to /dev/zero, a directory, a dangling or self-referential link, or unreadable."),
    "C20": ("Reuse also packs two and three trees successfully with one Packer and looks at every Meta again at the end."),
}
RULE_ADDENDA_R9 = {
    "C01": ("The last call of a sequence may name the destination by the same relative text from another working directory."),
    "C05": ("In a fifth of the cases the directory above the source directory is packed first with the same options."),
    "C06": ("Sub-path segments include a 2 KiB one; derived addresses include ones that end in a space (read back by the parser of their own kind)."),
    "C07": ("Violations are also spelled behind an empty sub-path ('//?checksum=...')."),
    "C09": ("The directory the archive is extracted into held a bundle that knew the same registry packages and was asked about them."),
    "C10": ("A fetcher may replace the directory it is given by a link to a checkout elsewhere (the build must fail and the checkout stay untouched)."),
    "C12": ("Bundlefaults also makes the n-th fetch or analysis panic (the caller recovers): the builder is spent. Diagnostics also runs with a tracer on the first call only, or on the later calls only."),
    "C19": ("The address pool holds internationalised host labels of 60 to 2500 characters (fix 61 was found by FuzzAddr in the thorough tier). An 'unpackinto' mode unpacks two archives one after the other into a destination that already holds fifos under entry names and directories recorded as read-only (worker stack limited to 64 MiB)."),
    "C15": ("Concurrentunpack sub-check (a -race binary): 2-5 archives unpacked at the same time through one Packer value, each destination compared with what its archive gives alone."),
    "C16": ("Spellings include relative ones with '..' from a working directory entered through a symlink with $PWD spelling it that way; history operations include a Pack of the directory above."),
    "C18": ("Manifests may hold two packages with the same URL text and different source types."),
}
for _k, _v in RULE_ADDENDA.items():
    PROPS[_k]["rule"] += " " + _v
for _k, _v in RULE_ADDENDA_R9.items():
    PROPS[_k]["rule"] += " " + _v
for _k, _v in RULE_ADDENDA_R8.items():
    PROPS[_k]["rule"] += " " + _v
for _k, _v in RULE_ADDENDA_R7.items():
    PROPS[_k]["rule"] += " " + _v
