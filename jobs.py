"""Job tables: what the driver runs per property and tier (see vcheck.py)."""

def rapid(name, run, checks, shards=1, **kw):
    d = {"name": name, "run": run, "kind": "rapid", "checks": checks, "shards": shards}
    d.update(kw)
    return d

def plain(name, run, shards=1, **kw):
    d = {"name": name, "run": run, "kind": "plain", "shards": shards}
    d.update(kw)
    return d

def fuzz(target, fuzztime, **kw):
    d = {"name": "fuzz-" + target, "kind": "fuzz", "target": target, "fuzztime": fuzztime}
    d.update(kw)
    return d

PROPS = {}

PROPS["C11"] = {
    "pkg": "c11",
    "level": "exploration",
    "rule": ("Exhaustive: every base (local with 0-2 leading '..' and 0-4 names; remote, registry, registry-final with "
             "sub-path depth 0-4) x every string over {n1,n2,.,..} of 1-5 segments rendered as a local address with and "
             "without trailing slash (the parser decides which are accepted), through ResolveRelativeSource and "
             "ResolveRelativeFinalSource, judged by a segment-stack model; all (base, rel1, rel2) triples over the accepted "
             "relatives (<=4 segments quick, <=5 thorough) for composition; all FinalSourceAddr sub-path pairs of depth<=3; "
             "all absolute second arguments. rapid adds longer paths and odd names. Non-trivial = the relative path contains "
             "at least one '..' (or, for finaladdr, both sides carry a sub-path; abs: every case); distinct = hash of the case."),
    "assumptions": ["the reference is a segment stack written from the property text", "bases are rendered from abstract (kind, segments) values and parsed by go-slug's own parsers"],
    "quick": [
        plain("exh-pairs", "^TestExhaustivePairs$", shards=2),
        plain("exh-triples", "^TestExhaustiveTriples$", shards=4),
        plain("exh-final", "^TestExhaustiveFinalAddr$"),
        rapid("rapid", "^TestProp", 5000, shards=2),
    ],
    "thorough": [
        plain("exh-pairs", "^TestExhaustivePairs$", shards=2),
        plain("exh-triples", "^TestExhaustiveTriples$", shards=8),
        plain("exh-final", "^TestExhaustiveFinalAddr$"),
        rapid("rapid", "^TestProp", 200000, shards=5),
    ],
}
