HOOK_COMMITS = []
NOT_APPLICABLE = {}
META = {}
META["C11"] = {
    "technique": "exhaustive enumeration + rapid PBT against a segment-stack reference model; composition (associativity) relation",
    "text": ("Every (base, relative) pair and (base, rel1, rel2) triple in the bounds the property names is enumerated completely and "
             "compared with an independent segment-stack model (kind, package, version, sub-path, canonical string, error-and-no-address "
             "on climbing out); rapid extends to longer paths and odd names. Exhaustive inside the stated bounds, sampled beyond."),
    "note": "Trusts the harness model (40 lines) and go-slug's parsers for building the base values; names needing URL escaping are compared through accessors only (printing is C06).",
}
