HOOK_COMMITS = []
NOT_APPLICABLE = {}
META = {}
META["C11"] = {
    "technique": "exhaustive enumeration + rapid PBT against a segment-stack reference model; composition (associativity) relation; the same model applied to the finder call log of real bundle builds",
    "text": ("Every (base, relative) pair and (base, rel1, rel2) triple in the bounds the property names is enumerated completely and "
             "compared with an independent segment-stack model (kind, package, version, sub-path, canonical string, error-and-no-address "
             "on climbing out); rapid extends to longer paths and odd names. Exhaustive inside the stated bounds, sampled beyond."),
    "note": "Trusts the harness model (40 lines) and go-slug's parsers for building the base values; names needing URL escaping are compared through accessors only (printing is C06).",
}
META["C01"] = {
    "technique": "rapid PBT over hostile tar.gz entry sequences and fault plans, and over sequences of archives unpacked into one destination; arena snapshot before/after every call as oracle; native fuzzing (thorough)",
    "text": ("Generated adversarial archives (entry orders, name/target spellings, repeated names, links before files, truncated and failing "
             "readers) are unpacked into a destination nested in an arena whose complete observable state outside dst is snapshotted before "
             "and after; any difference is a violation whatever Unpack returned. Sampled, not exhaustive."),
    "note": "Trusts the harness snapshot (Lstat/Readlink/sha256) and tar builders; dst's own inode and atime are excluded; runs as root so permission bits never mask an escape.",
}
META["C04"] = {
    "technique": "rapid PBT over cooperating symlink entries and over sequences of archives into one destination; physical link resolution of the unpacked tree after every call as oracle; IllegalSlugError classification",
    "text": ("Every symlink left under dst is resolved the way the kernel would and must stay inside dst (unless allow-listed); archives whose "
             "only offence is one directly escaping link must be refused with an illegal-slug error. One known finding (link made escaping by "
             "way of another link) is excluded at the oracle and replayed as KNOWN-FINDING."),
    "note": "The physical resolver is harness code (hop limit 40, lexical continuation past missing components).",
}
META["C02"] = {
    "technique": "rapid PBT over generated trees x packer options; Pack->Unpack round-trip comparison; second pass as an unprivileged uid",
    "text": ("Round trip over generated trees with the comparison the property states (paths, type, content, permission bits, link target, "
             "mtime rounded to the second), omissions decided by an independent ignore matcher; root and uid 65534."),
    "note": "Trusts fsx.Snapshot; ignore-on directory entries are lenient here and judged by C03.",
}
META["C15"] = {
    "technique": "exhaustive enumeration of short entry sequences + rapid PBT against a reference sequential tar interpreter; root, unprivileged and strict-umask passes",
    "text": ("All entry sequences up to length 3 (4 in the thorough tier) over a 18-variant alphabet are unpacked as root and as uid 65534 and the "
             "destination is compared with the tree computed by an independent reference interpreter; rapid extends to 12 entries. Exhaustive "
             "within that alphabet, sampled beyond."),
    "note": "The reference interpreter (lib/refunpack) is the trusted base; archives are written with archive/tar.",
}
META["C12"] = {
    "technique": "fault enumeration: every writer/reader byte offset of Pack, Unpack and WriteArchive (and every builder callback position) per rapid-generated subject",
    "text": ("For each generated tree/archive/world the fault position is enumerated completely - every output byte offset for Pack, every "
             "input offset (truncation and read error) for Unpack, every fetch/registry/finder call and pairs of them for bundle builds with an "
             "OpenDir probe at every callback boundary - and the reported outcome is checked against 'error, or complete result'."),
    "note": "Subjects are sampled by rapid; positions per subject are exhaustive up to the stated size limits.",
}
META["C03"] = {
    "technique": "rapid PBT over rule files x trees; differential against an independent segment-wise glob matcher; Pack (plain, dereferenced, ignore off) and bundle builder legs",
    "text": ("Generated rule files (patterns derived from the generated tree so that they match) are applied by Pack and by the bundle builder; "
             "the set of shipped files must equal what an independently written matcher derives from each file's own archive path."),
    "note": "lib/refignore (segment-wise, no regular expressions, no pruning) is the trusted reference.",
}
META["C05"] = {
    "technique": "rapid PBT over link-intent trees in an arena with tagged outside content; invariants over the decoded slug; Unpack acceptance",
    "text": ("Trees with links drawn by intent are packed under all option sets; the decoded slug is checked for leaked OUT:-tagged content, "
             "stored out-of-tree links, unclean names and escaping relative links, and Unpack must accept it. One known finding (link re-entering "
             "the root by its name) is excluded at the oracle and replayed."),
    "note": "Outside content is recognised by OUT: tokens; link classification is lexical (one hop) as the property states.",
}
META["C20"] = {
    "technique": "rapid PBT over trees x packer options (and over files that change size while being packed); returned Meta compared with headers and bodies read back from the slug",
    "text": "For every generated tree/option set the returned file list and size are compared with the decoded archive (names in order, header sizes, body bytes).",
    "note": "Trusts archive/tar for decoding.",
}
META["C16"] = {
    "technique": "metamorphic PBT (same tree under varied spelling, cwd, call history, packer reuse) and concurrent Pack rounds under the race detector",
    "text": ("The decoded slug for a generated tree must be identical under 21 spellings/cwds/symlink routes, after generated call histories, and "
             "when produced while other goroutines pack other trees (race-detector binary, concurrent phase first in each process). Two known "
             "findings about a symlinked source path are excluded by variant and replayed."),
    "note": "Schedules are sampled, not enumerated; a race report counts only with a go-slug frame.",
}
META["C19"] = {
    "technique": "rapid PBT + native fuzzing with a 'returns a value or an error' oracle; hazardous Pack cases in watched worker subprocesses (panic/crash/hang detection)",
    "text": ("All entry points are driven with grammar-generated, mutated and coverage-guided inputs; the only oracle is that the call returns. "
             "Pack and bundle builds on trees with link cycles, special files and degenerate rule files run in a watched subprocess so that "
             "stack exhaustion and blocking are observed rather than killing the check."),
    "note": "Hang detection uses a 12s silence threshold (normal cases take milliseconds) and requires a go-slug frame in the dump; otherwise inconclusive (exit 2).",
}
META["C06"] = {
    "technique": "rapid PBT over a source-address grammar with mutation, String->Parse fixpoint and equality oracles; native fuzzing (thorough)",
    "text": ("Accepted and derived address values of every kind are printed and parsed back (own-kind parser and general parsers): equal value, "
             "same kind, idempotent print; equality coincides with equal print. One known finding (sub-paths containing '?' or '#') is excluded "
             "at the oracle and replayed."),
    "note": "Value equality is Go's == on the public types, which is what the bundle builder relies on for map keys.",
}
META["C07"] = {
    "technique": "rapid PBT with must-accept / must-reject / if-accepted classes over all parsing routes and the constructor; independent policy predicate; native coverage-guided fuzzing of address strings (thorough)",
    "text": ("Every route to a remote address (four parsers, the constructor, relative resolution) is fed grammar-valid, single-rule-violating and "
             "mutated inputs; accepted values are judged by an independent transport-policy predicate over the public accessors."),
    "note": "The predicate is harness code written from the property text.",
}
META["C08"] = {
    "technique": "rapid PBT over scripted bundle worlds (model-based): builder run against a reference dependency closure and brute-force version selection",
    "text": ("Generated worlds (packages, registry, dependency graphs incl. cycles and registry hops, Add scripts) are built with a logging "
             "fetcher/registry/finder; the finished bundle is compared with a closure computed independently of the builder."),
    "note": "lib/world.Reference is the trusted model; version-set membership is taken from go-versions, precedence is re-implemented.",
}
META["C14"] = {
    "technique": "exhaustive enumeration of small dependency graphs + rapid worlds; invariants over fetcher/registry/finder call logs and the recorded trace; call-budget termination",
    "text": ("All dependency graphs over 2 (quick) or 3 (thorough) module locations with edges none/remote/via-registry are built; logs must show "
             "each fetch, registry query and (source, finder) analysis exactly once and correctly bracketed trace events; a callback budget "
             "decides termination."),
    "note": "Exhaustive within the stated graph family, sampled beyond; the closure comes from lib/world.Reference.",
}
META["C17"] = {
    "technique": "rapid PBT over version lists x allowed sets x request sequences; brute-force maximum as oracle; call-log and bundle-content invariants",
    "text": ("Every registry request of a generated build is compared with the brute-force newest offered-and-allowed version (own semver "
             "precedence); selections, source addresses, deprecation notes, error behaviour and the registry call log are checked."),
    "note": "Membership of a version in an allowed set comes from go-versions; precedence is re-implemented in the harness.",
}
META["C13"] = {
    "technique": "metamorphic PBT over bundle worlds: all Add-order permutations, permuted dependency reports, clone pairs; concurrent Adds under the race detector",
    "text": ("The complete observable fingerprint of a finished bundle must be invariant under every permutation of the Add calls, under permuted "
             "dependency discovery order and under concurrent Add calls (race-detector binary, injected yields); content-equal packages share a "
             "directory and content-different ones never do."),
    "note": "Interleavings are sampled, not enumerated; permutations are exhaustive up to 4 calls.",
}
META["C09"] = {
    "technique": "rapid PBT over bundle worlds with rich package trees; round trips Close -> OpenDir and WriteArchive -> ExtractArchive compared through every accessor and a tree diff",
    "text": "Every accessor of the bundle returned by Close is compared with the re-opened bundle and with the bundle extracted from its archive, plus a recursive comparison of the two directory trees.",
    "note": "Lookups are compared relative to each bundle's own root.",
}
META["C10"] = {
    "technique": "rapid PBT over hostile fetched package trees; invariants over the finished bundle (physical link resolution, reference ignore matcher) and an arena snapshot",
    "text": "A hostile fetcher plants links, special files and rule files; a build that succeeds must leave only sane package directories and must not touch anything outside the target; definitely illegal content must make the build fail.",
    "note": "Uses the same physical resolver as C04 and the same reference matcher as C03.",
}
META["C18"] = {
    "technique": "rapid PBT over field-wise generated manifests and real bundles; containment and inverse-lookup oracles; native fuzzing of manifest bytes (thorough)",
    "text": "Generated and mutated manifests are opened; every forward lookup must stay strictly inside the root and hostile directory names must be refused; path -> address -> path must be the identity for paths inside package directories and refused elsewhere.",
    "note": "Containment is judged with filepath.Rel on cleaned absolute paths.",
}
