#!/bin/sh
# Offline setup: warm the Go build cache for every harness package (and the -race variants that checks use).
set -e
here=$(cd "$(dirname "$0")" && pwd)
cd "$here/harness"
export GOFLAGS=-mod=mod GOPROXY=off GOSUMDB=off GOTOOLCHAIN=local
for p in c[0-9]*/; do
  go test -c -o /dev/null "./$p"
done
for p in $(python3 -c "
import sys; sys.path.insert(0,'$here')
from jobs import PROPS
print(' '.join(sorted({v['pkg'] for v in PROPS.values() if any(j.get('race') for t in ('quick','thorough') for j in v[t])})))"); do
  go test -race -c -o /dev/null "./$p"
done
echo setup ok
