#!/bin/bash
# usage: confirm_seed.sh <src _out/mK dir> <seed id>   -> copies to /verif/seeded/<id>/ when confirmed
# Confirms: patch applies to /repo HEAD, module builds, existing suite passes with it, demo fails with it, demo passes without it.
set -u
src=$1; id=$2
export GOFLAGS=-mod=mod GOPROXY=off GOSUMDB=off GOTOOLCHAIN=local
wt=$(mktemp -d /tmp/confirm-XXXXXX); rmdir $wt
git -C /repo worktree add -q --detach $wt HEAD || exit 2
cleanup() { git -C /repo worktree remove --force $wt 2>/dev/null; rm -rf $wt; }
trap cleanup EXIT
place=$(grep -m1 -o 'place in: *[^ ]*' $src/demo_test.go | sed 's/place in: *//')
[ -z "$place" ] && place="."
place=${place%/}; [ "$place" = "" ] && place="."
[ "$place" = "module root" ] && place="."
cd $wt
demo=$place/zz_demo_seed_test.go
cp $src/demo_test.go $demo
base_demo=$(go test -vet=off -count=1 ./$place 2>&1 | tail -3); base_rc=$?
go test -vet=off -count=1 ./$place >/dev/null 2>&1; base_rc=$?
rm -f $demo
if ! git apply $src/patch.diff; then echo "$id: PATCH DOES NOT APPLY"; exit 1; fi
go build ./... || { echo "$id: BUILD FAILS"; exit 1; }
go test -vet=off -count=1 ./... >/tmp/confirm-$id.suite 2>&1; suite_rc=$?
cp $src/demo_test.go $demo
go test -vet=off -count=1 ./$place >/tmp/confirm-$id.demo 2>&1; mut_rc=$?
rm -f $demo
echo "$id: base_demo_rc=$base_rc suite_with_patch_rc=$suite_rc demo_with_patch_rc=$mut_rc place=$place"
if [ $base_rc -eq 0 ] && [ $suite_rc -eq 0 ] && [ $mut_rc -ne 0 ]; then
  mkdir -p /verif/seeded/$id
  cp $src/patch.diff $src/demo_test.go /verif/seeded/$id/
  python3 - "$src/meta.json" "/verif/seeded/$id/meta.json" "$id" "$place" <<'PY'
import json,sys
m=json.load(open(sys.argv[1]))
m["id"]=sys.argv[3]; m["demo_place"]=sys.argv[4]
m["confirmed"]="tools/confirm_seed.sh: on a scratch worktree of /repo HEAD the patch applies, go build passes, the full existing suite passes with it, the demo fails with it and passes without it"
json.dump(m,open(sys.argv[2],"w"),indent=1)
PY
  echo "$id: CONFIRMED"
else
  echo "$id: NOT CONFIRMED"; tail -5 /tmp/confirm-$id.suite /tmp/confirm-$id.demo
fi
