#!/bin/bash
# usage: demo_seed.sh <seed id>... : in a scratch worktree of /repo HEAD apply the seeded patch and run its demo;
# prints "still-breaks" (demo fails with the patch) or "equivalent-now" (demo passes with the patch: later fixes mask it)
export GOFLAGS=-mod=mod GOPROXY=off GOSUMDB=off GOTOOLCHAIN=local
for id in "$@"; do
  d=/verif/seeded/$id
  wt=$(mktemp -d /tmp/demo-XXXXXX); rmdir $wt
  git -C /repo worktree add -q --detach $wt HEAD || exit 2
  ( cd $wt
    if ! git apply $d/patch.diff 2>/dev/null; then echo "$id patch-does-not-apply"; exit; fi
    demo=$(ls $d/demo_test.go $d/demo 2>/dev/null | head -1)
    place=$(grep -m1 -o 'place in: *[^ ]*' $demo | sed 's/place in: *//'); place=${place%/}
    [ -z "$place" ] && place=.; [ "$place" = "module" ] && place=.
    cp $demo $place/zz_demo_seed_test.go
    if timeout 300 go test -vet=off -count=1 ./$place >/tmp/demo-$id.out 2>&1; then echo "$id equivalent-now (demo passes with the patch)"; else echo "$id still-breaks ($(grep -m1 -E '^(--- FAIL|FAIL|panic)' /tmp/demo-$id.out | cut -c1-80))"; fi )
  git -C /repo worktree remove --force $wt 2>/dev/null; rm -rf $wt
done
