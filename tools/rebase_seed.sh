#!/bin/bash
# usage: rebase_seed.sh <seed id>... : re-creates seeded/<id>/patch.diff against /repo HEAD with fuzzy matching
# (patch -p1 -F3) in a scratch worktree; keeps it only if the module builds, the suite passes and the demo still fails.
export GOFLAGS=-mod=mod GOPROXY=off GOSUMDB=off GOTOOLCHAIN=local
for id in "$@"; do
  d=/verif/seeded/$id
  wt=$(mktemp -d /tmp/rebase-XXXXXX); rmdir $wt
  git -C /repo worktree add -q --detach $wt HEAD || exit 2
  ( cd $wt
    if ! patch -p1 -F3 --no-backup-if-mismatch -s < $d/patch.diff >/tmp/rebase-$id.log 2>&1; then echo "$id FUZZY-FAILED ($(grep -c FAILED /tmp/rebase-$id.log) hunks)"; exit; fi
    find . -name '*.orig' -delete; find . -name '*.rej' -delete
    if ! go build ./... 2>/tmp/rebase-$id.build; then echo "$id BUILD-FAILS after fuzzy apply"; exit; fi
    git diff > /tmp/rebase-$id.diff
    if ! go test -vet=off -count=1 ./... >/tmp/rebase-$id.suite 2>&1; then echo "$id SUITE-FAILS after fuzzy apply"; exit; fi
    demo=$(ls $d/demo_test.go $d/demo 2>/dev/null | head -1)
    place=$(grep -m1 -o 'place in: *[^ ]*' $demo | sed 's/place in: *//'); place=${place%/}
    [ -z "$place" ] && place=.; [ "$place" = "module" ] && place=.
    cp $demo $place/zz_demo_seed_test.go
    if timeout 300 go test -vet=off -count=1 ./$place >/tmp/rebase-$id.demo 2>&1; then echo "$id demo PASSES with the rebased patch (equivalent now?)"; exit; fi
    cp /tmp/rebase-$id.diff $d/patch.diff
    python3 - "$d/meta.json" <<'PY'
import json,sys
p=sys.argv[1]; m=json.load(open(p)); m["rebased"]=(m.get("rebased","")+"; re-created with fuzzy matching after a later fix").strip("; "); json.dump(m,open(p,"w"),indent=1)
PY
    echo "$id REBASED" )
  git -C /repo worktree remove --force $wt 2>/dev/null; rm -rf $wt
done
