#!/bin/bash
# Runs every seeded change against its own property's quick check (applies the patch to /repo, runs, reverts)
# and writes one line per seed to seeded/REGRESSION.txt. Nothing else may use /repo while this runs.
cd /verif
out=seeded/REGRESSION.txt
: > $out.tmp
for d in seeded/C*-m*/; do
  id=$(basename $d); prop=${id%%-*}
  if ! git -C /repo apply --check /verif/$d/patch.diff 2>/dev/null; then echo "$id does-not-apply" >> $out.tmp; continue; fi
  res=$(VERIF_QUICK_SCALE=${VERIF_QUICK_SCALE:-4} timeout 1500 ./tools/try_seed.sh $id $prop 2>&1 | grep -E "^(OK|RESULT|INFRA)" | head -1)
  case "$res" in
    RESULT*violations=0*) echo "$id MISSED ($res)" >> $out.tmp;;
    RESULT*) echo "$id caught by $prop" >> $out.tmp;;
    OK*) echo "$id MISSED by $prop" >> $out.tmp;;
    *) echo "$id UNCLEAR: $res" >> $out.tmp;;
  esac
done
mv $out.tmp $out
git -C /repo status --short | head -3
echo regression done
