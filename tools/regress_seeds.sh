#!/bin/bash
# Runs every seeded change against its own property's quick check and writes one line per seed to
# seeded/REGRESSION.txt. /repo is left alone: each patch is applied in a scratch worktree of /repo HEAD and the
# check builds against it (VERIF_REPO, see tools/try_seed_alt.sh). Four lanes, each owning a set of properties.
# Do not edit the harness while this runs (every check rebuilds it).
cd /verif
out=seeded/REGRESSION.txt
lanes=${LANES:-4}
lane() {
  l=$1; : > $out.tmp.$l
  n=0
  for p in C01 C02 C03 C04 C05 C06 C07 C08 C09 C10 C11 C12 C13 C14 C15 C16 C17 C18 C19 C20; do
    n=$((n+1)); [ $((n % lanes)) -eq $l ] || continue
    for d in seeded/$p-m*/; do
      id=$(basename $d)
      res=$(VERIF_QUICK_SCALE=${VERIF_QUICK_SCALE:-4} HEADN=400 timeout 1500 ./tools/try_seed_alt.sh $id $p 2>&1)
      if echo "$res" | grep -q "apply failed"; then echo "$id does-not-apply" >> $out.tmp.$l; continue; fi
      if echo "$res" | grep -q "^VIOLATION"; then echo "$id caught by $p" >> $out.tmp.$l
      elif echo "$res" | grep -q "^OK"; then echo "$id MISSED by $p" >> $out.tmp.$l
      else echo "$id UNCLEAR: $(echo "$res" | grep -E '^(RESULT|INFRA)' | head -1)" >> $out.tmp.$l; fi
    done
  done
}
for l in $(seq 0 $((lanes-1))); do lane $l & done
wait
echo "# every seeded change against its own property's quick check at /repo $(git -C /repo rev-parse --short HEAD), harness $(git rev-parse --short HEAD) (tools/regress_seeds.sh)" > $out
cat $out.tmp.* | sort -V >> $out; rm -f $out.tmp.*
echo regression done
