#!/bin/bash
# For every "fixed:" entry: revert that fix commit in /repo (working tree only), run the property's quick check,
# expect a VIOLATION, restore. Shows that each repaired defect would be reported again if it ever returned.
cd /verif
grep '^fixed:' known_findings.txt | while read -r line; do
  prop=$(echo "$line" | sed -E 's/^fixed: property=(C[0-9]+) .*/\1/')
  commit=$(echo "$line" | awk '{print $3}')
  key=$(echo "$line" | sed -E 's/.*"key":"([^"]+)".*/\1/')
  if ! git -C /repo revert --no-commit "$commit" >/dev/null 2>&1; then
    git -C /repo revert --abort >/dev/null 2>&1; git -C /repo checkout -- . ; git -C /repo clean -fdq
    echo "$prop $key $commit: revert conflicts with later fixes (skipped)"
    continue
  fi
  if ! (cd /repo && go build ./... >/dev/null 2>&1); then
    echo "$prop $key $commit: reverted tree does not build (skipped)"
  else
    out=$(VERIF_QUICK_SCALE=1 ./check $prop quick 2>/dev/null | grep -c '^VIOLATION')
    echo "$prop $key $commit: violations reported with the fix reverted: $out"
  fi
  git -C /repo revert --abort >/dev/null 2>&1; git -C /repo reset -q --hard HEAD; git -C /repo clean -fdq
done
git -C /repo status --short | head -3
