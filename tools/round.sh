#!/bin/bash
# usage: round.sh <offset> <Cxx>... : confirm /tmp/wt-Cxx/_out/m1,m2 as Cxx-m(1+offset),m(2+offset); remove the worktree; try the check
cd /verif; off=$1; shift
for id in "$@"; do
  for k in 1 2; do
    n=$((k+off))
    [ -d /tmp/wt-$id/_out/m$k ] || { echo "$id m$k missing"; continue; }
    ./tools/confirm_seed.sh /tmp/wt-$id/_out/m$k $id-m$n 2>&1 | grep -E 'CONFIRMED|NOT|APPLY|FAILS' | tail -1
  done
  rm -rf /tmp/out-$id-r$off; cp -r /tmp/wt-$id/_out /tmp/out-$id-r$off 2>/dev/null
  git -C /repo worktree remove --force /tmp/wt-$id 2>/dev/null
  for n in $((1+off)) $((2+off)); do
    [ -d seeded/$id-m$n ] && timeout 1200 ./tools/try_seed.sh $id-m$n $id 2>&1 | grep -E 'seed=|violation in|apply' | cut -c1-260
  done
done
