#!/bin/bash
# usage: round2.sh <Cxx>...  : confirm /tmp/wt-Cxx/_out/m1,m2 as Cxx-m3,m4; remove the worktree; try the property's check
cd /verif
for id in "$@"; do
  for k in 1 2; do
    n=$((k+2))
    [ -d /tmp/wt-$id/_out/m$k ] || { echo "$id m$k missing"; continue; }
    ./tools/confirm_seed.sh /tmp/wt-$id/_out/m$k $id-m$n 2>&1 | grep -E 'CONFIRMED|NOT|APPLY|FAILS' | tail -1
  done
  git -C /repo worktree remove --force /tmp/wt-$id 2>/dev/null
  for n in 3 4; do
    [ -d seeded/$id-m$n ] && timeout 1200 ./tools/try_seed.sh $id-m$n $id 2>&1 | grep -E 'seed=|violation in|apply' | cut -c1-260
  done
done
