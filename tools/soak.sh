#!/bin/bash
# usage: soak.sh <tier> <seed>...   runs every check at each seed, 4 checks at a time; prints anything that is not OK
tier=$1; shift
cd /verif
for seed in "$@"; do
  for p in C01 C02 C03 C04 C05 C06 C07 C08 C09 C10 C11 C12 C13 C14 C15 C16 C17 C18 C19 C20; do
    echo "$seed $p"
  done
done | xargs -P 4 -L 1 bash -c 'out=$(VERIF_SEED=$0 ./check $1 '"$tier"' 2>/tmp/soak-$0-$1.err | grep -v "^KNOWN-FINDING"); rc=$?; case "$out" in OK*) ;; *) echo "seed=$0 $1: $out"; tail -5 /tmp/soak-$0-$1.err;; esac'
echo soak done
