#!/bin/bash
# Runs every property's thorough check, one after the other (each uses all cores), and prints one line per property.
# PROPS_LIST="C03 C19" restricts it to some properties.
# In a `vp run --with-repo` snapshot: builds against $VP_RUN_REPO so that work in /repo does not disturb it.
cd "$(dirname "$0")/.."
[ -n "$VP_RUN_REPO" ] && export VERIF_REPO="$VP_RUN_REPO"
for p in ${PROPS_LIST:-C01 C02 C03 C04 C05 C06 C07 C08 C09 C10 C11 C12 C13 C14 C15 C16 C17 C18 C19 C20}; do
  t0=$(date +%s)
  out=$(./check $p thorough 2>/tmp/thorough-$p.err | grep -v '^KNOWN-FINDING')
  echo "$(date +%H:%M) $p ($(( $(date +%s) - t0 ))s): $out"
  grep -m3 'violation in' /tmp/thorough-$p.err | cut -c1-400
done
echo thorough-all done
