#!/bin/bash
# usage: try_seed.sh <seed id> <property> [tier]  — applies seeded/<id>/patch.diff to /repo, runs the check, reverts.
id=$1; prop=$2; tier=${3:-quick}
cd /verif
if [ -n "$(git -C /repo status --porcelain)" ]; then echo "/repo not clean"; exit 3; fi
git -C /repo apply /verif/seeded/$id/patch.diff || { echo "patch does not apply"; exit 3; }
trap 'git -C /repo checkout -- . ; git -C /repo clean -fdq' EXIT
./check $prop $tier 2>/tmp/try-$id.err | grep -v '^KNOWN' | head -5
rc=${PIPESTATUS[0]}
echo "seed=$id prop=$prop tier=$tier exit=$rc"
grep -m2 'violation in' /tmp/try-$id.err | cut -c1-300
