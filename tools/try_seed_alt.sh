#!/bin/bash
# usage: try_seed_alt.sh <seed id> <prop> [tier] : like try_seed.sh but leaves /repo alone - the patch is applied in a
# scratch worktree of /repo HEAD and the check builds against it (VERIF_REPO)
export GOFLAGS=-mod=mod GOPROXY=off GOSUMDB=off GOTOOLCHAIN=local
seed=$1; prop=$2; tier=${3:-quick}
wt=$(mktemp -d /tmp/alt-XXXXXX); rmdir $wt
git -C /repo worktree add -q --detach $wt HEAD || exit 2
trap 'git -C /repo worktree remove --force $wt 2>/dev/null; rm -rf $wt' EXIT
if ! git -C $wt apply /verif/seeded/$seed/patch.diff; then echo "seed=$seed apply failed"; exit 1; fi
echo "seed=$seed prop=$prop tier=$tier (alt)"
cd /verif && VERIF_REPO=$wt ./check $prop $tier 2>&1 | grep -E "^(violation in|VIOLATION|RESULT|OK|INFRA|KNOWN)" | head -${HEADN:-4} | cut -c1-300
