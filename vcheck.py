#!/usr/bin/env python3
"""Driver for the go-slug property checks (see DESIGN.md §2.2).

usage: vcheck.py <ID> <quick|thorough> [--replay <path>]      (VERIF_REPO=<dir>: build against another go-slug checkout instead of /repo)

exit 0: property held on everything explored (KNOWN-FINDING lines allowed)
exit 1: VIOLATION property=<id> replay=<path>
exit 2: infrastructure problem / inconclusive (never a violation)
"""
import base64
import concurrent.futures as cf
import hashlib
import json
import os
import re
import shutil
import signal
import subprocess
import sys
import tempfile
import time

VERIF = os.path.dirname(os.path.abspath(__file__))
HARNESS = os.path.join(VERIF, "harness")
sys.path.insert(0, VERIF)
from jobs import PROPS  # noqa: E402

NCPU = os.cpu_count() or 4


def log(*a):
    print(*a, file=sys.stderr, flush=True)


def goenv(extra=None):
    e = dict(os.environ)
    e.update({
        "GOFLAGS": "-mod=mod",
        "GOPROXY": "off",
        "GOSUMDB": "off",
        "GOTOOLCHAIN": "local",
        "VERIF_DIR": VERIF,
        "CGO_ENABLED": e.get("CGO_ENABLED", "1"),
    })
    if extra:
        e.update(extra)
    return e


def make_scratch():
    base = None
    shm = "/dev/shm"
    if os.path.isdir(shm) and os.access(shm, os.W_OK):
        try:
            st = os.statvfs(shm)
            if st.f_bavail * st.f_frsize > 2 << 30:
                base = shm
        except OSError:
            pass
    d = tempfile.mkdtemp(prefix="verif-", dir=base)
    os.chmod(d, 0o777)
    return d


def seed_for(verif_seed, prop_index, job_index, shard):
    return 1 + ((verif_seed * 1000003 + shard * 7919 + job_index * 104729 + prop_index * 15485863) % ((1 << 63) - 1))


def build(pkg, out, race, scratch):
    cmd = ["go", "test", "-c", "-o", out]
    if race:
        cmd.append("-race")
    alt = os.environ.get("VERIF_REPO")
    if alt and os.path.abspath(alt) != "/repo":
        # build against another checkout of go-slug (a snapshot used by a background run): same go.mod,
        # other replace target, handed to the go command as an alternative module file
        modfile = os.path.join(scratch, "alt.mod")
        if not os.path.exists(modfile):
            with open(os.path.join(HARNESS, "go.mod")) as f:
                mod = f.read()
            with open(modfile, "w") as f:
                f.write(mod.replace("=> /repo", "=> " + os.path.abspath(alt)))
            shutil.copyfile(os.path.join(HARNESS, "go.sum"), os.path.join(scratch, "alt.sum"))
        cmd.append("-modfile=" + modfile)
    cmd.append("./" + pkg)
    t0 = time.time()
    p = subprocess.run(cmd, cwd=HARNESS, env=goenv(), stdout=subprocess.PIPE, stderr=subprocess.STDOUT, text=True)
    if p.returncode != 0 or not os.path.exists(out):
        log("BUILD FAILED (%s):\n%s" % (" ".join(cmd), p.stdout[-8000:]))
        return False
    log("built %s%s in %.1fs" % (pkg, " (race)" if race else "", time.time() - t0))
    return True


def run_job(binary, pkgdir, job, shard, nshards, seed, tier, scratch, extra_env):
    tag = "%s-%d" % (job["name"], shard)
    outfile = os.path.join(scratch, tag + ".json")
    tmpd = os.path.join(scratch, "tmp-" + tag)
    os.makedirs(tmpd, exist_ok=True)
    os.chmod(tmpd, 0o777)
    env = goenv({
        "VERIF_OUT": outfile,
        "VERIF_SHARD": "%d/%d" % (shard, nshards),
        "VERIF_TIER": tier,
        "VERIF_SCRATCH": tmpd,
        "TMPDIR": tmpd,
        "VERIF_JOBSEED": str(seed),
    })
    for k, v in (job.get("env") or {}).items():
        env[k] = str(v)
    if job.get("uid"):
        env["VERIF_DROP_UID"] = str(job["uid"])
    if job.get("race"):
        env["GORACE"] = "halt_on_error=0 exitcode=0 log_path=" + os.path.join(scratch, "race-" + tag)
    env.update(extra_env or {})
    timeout = job.get("timeout", 600 if tier == "quick" else 7200)
    args = [binary, "-test.run=" + job["run"], "-test.count=1", "-test.timeout=%ds" % (timeout + 60)]
    if job.get("kind", "rapid") == "rapid":
        args += ["-rapid.checks=%d" % job["checks"], "-rapid.seed=%d" % seed, "-rapid.nofailfile",
                 "-rapid.shrinktime=%s" % job.get("shrinktime", "20s")]
    t0 = time.time()
    try:
        p = subprocess.Popen(args, cwd=pkgdir, env=env, stdout=subprocess.PIPE, stderr=subprocess.STDOUT,
                             text=True, errors="replace", start_new_session=True)
        try:
            out, _ = p.communicate(timeout=timeout)
            rc = p.returncode
            timed_out = False
        except subprocess.TimeoutExpired:
            os.killpg(p.pid, signal.SIGKILL)
            out, _ = p.communicate()
            rc = -9
            timed_out = True
    except OSError as e:
        return {"tag": tag, "job": job, "rc": -1, "out": str(e), "data": None, "timed_out": False, "wall": 0, "shard": shard}
    data = None
    try:
        with open(outfile) as f:
            data = json.load(f)
    except (OSError, ValueError):
        data = None
    race_reports = []
    if job.get("race"):
        for fn in os.listdir(scratch):
            if fn.startswith("race-" + tag):
                with open(os.path.join(scratch, fn), errors="replace") as f:
                    race_reports.append(f.read())
    shutil.rmtree(tmpd, ignore_errors=True)
    return {"tag": tag, "job": job, "rc": rc, "out": out, "data": data, "timed_out": timed_out,
            "wall": time.time() - t0, "shard": shard, "race_reports": race_reports, "seed": seed}


FUZZ_EXECS = re.compile(r"execs: (\d+)")


def run_fuzz(pkg, job, tier, scratch, seedval):
    """Native coverage-guided fuzzing of one target (thorough tier only)."""
    tag = "fuzz-" + job["target"]
    faildir = os.path.join(scratch, tag + "-fails")
    os.makedirs(faildir, exist_ok=True)
    outfile = os.path.join(scratch, tag + ".json")
    tmpd = os.path.join(scratch, "tmp-" + tag)
    os.makedirs(tmpd, exist_ok=True)
    cachedir = os.path.join(scratch, tag + "-cache")
    env = goenv({"VERIF_FUZZ_FAILDIR": faildir, "VERIF_TIER": tier, "TMPDIR": tmpd, "VERIF_SCRATCH": tmpd,
                 "VERIF_OUT": outfile})
    for k, v in (job.get("env") or {}).items():
        env[k] = str(v)
    pkgdir = os.path.join(HARNESS, pkg)
    crashdir = os.path.join(pkgdir, "testdata", "fuzz", job["target"])
    before = set(os.listdir(crashdir)) if os.path.isdir(crashdir) else set()
    cmd = ["go", "test", "./" + pkg, "-run=^$", "-fuzz=^" + job["target"] + "$", "-fuzztime=%s" % job["fuzztime"],
           "-test.fuzzcachedir=" + cachedir, "-parallel=%d" % job.get("parallel", NCPU)]
    t0 = time.time()
    timeout = job.get("timeout", 3600)
    p = subprocess.Popen(cmd, cwd=HARNESS, env=env, stdout=subprocess.PIPE, stderr=subprocess.STDOUT, text=True,
                         errors="replace", start_new_session=True)
    try:
        out, _ = p.communicate(timeout=timeout)
        rc = p.returncode
        timed_out = False
    except subprocess.TimeoutExpired:
        os.killpg(p.pid, signal.SIGKILL)
        out, _ = p.communicate()
        rc = -9
        timed_out = True
    execs = 0
    for m in FUZZ_EXECS.finditer(out):
        execs = max(execs, int(m.group(1)))
    fails = []
    for fn in sorted(os.listdir(faildir)):
        try:
            with open(os.path.join(faildir, fn)) as f:
                fails.append(json.load(f))
        except (OSError, ValueError):
            pass
    # remove crashers the fuzzer wrote into the source tree (they are converted to replay files instead)
    if os.path.isdir(crashdir):
        for fn in set(os.listdir(crashdir)) - before:
            try:
                os.unlink(os.path.join(crashdir, fn))
            except OSError:
                pass
    shutil.rmtree(cachedir, ignore_errors=True)
    shutil.rmtree(tmpd, ignore_errors=True)
    return {"tag": tag, "job": job, "rc": rc, "out": out, "execs": execs, "fails": fails, "timed_out": timed_out,
            "wall": time.time() - t0}


def decode_hashes(b64):
    raw = base64.b64decode(b64 or "")
    return {raw[i:i + 8] for i in range(0, len(raw), 8)}


def write_replay(pid, failure):
    d = os.path.join(VERIF, "replays", pid)
    os.makedirs(d, exist_ok=True)
    body = {"property": pid, "sub": failure["sub"], "case": failure["case"], "message": failure["message"],
            "origin": failure.get("origin", "")}
    if failure.get("env"):
        body["env"] = failure["env"]
    h = hashlib.sha256(json.dumps([failure["sub"], failure["case"]], sort_keys=True).encode()).hexdigest()[:16]
    path = os.path.join(d, "%s-%s.json" % (failure["sub"], h))
    with open(path, "w") as f:
        json.dump(body, f, indent=1, sort_keys=True)
        f.write("\n")
    return path


def main():
    argv = sys.argv[1:]
    if len(argv) < 2:
        print(__doc__)
        return 2
    pid = argv[0]
    replay = None
    tier = None
    i = 1
    while i < len(argv):
        if argv[i] == "--replay":
            replay = os.path.abspath(argv[i + 1])
            i += 2
        else:
            tier = argv[i]
            i += 1
    if pid not in PROPS:
        log("unknown property", pid)
        return 2
    if tier is None:
        tier = os.environ.get("VERIF_TIER", "quick")
    if tier not in ("quick", "thorough"):
        log("unknown tier", tier)
        return 2
    try:
        verif_seed = int(os.environ.get("VERIF_SEED", "1"))
    except ValueError:
        verif_seed = 1
    spec = PROPS[pid]
    prop_index = sorted(PROPS).index(pid)
    pkg = spec["pkg"]
    pkgdir = os.path.join(HARNESS, pkg)
    t_start = time.time()
    scratch = make_scratch()
    try:
        return run(pid, spec, prop_index, pkg, pkgdir, tier, replay, verif_seed, scratch, t_start)
    finally:
        subprocess.run(["chmod", "-R", "u+rwx", scratch], stderr=subprocess.DEVNULL)
        shutil.rmtree(scratch, ignore_errors=True)


def run(pid, spec, prop_index, pkg, pkgdir, tier, replay, verif_seed, scratch, t_start):
    shutil.rmtree(os.path.join(pkgdir, "testdata", "rapid"), ignore_errors=True)
    seed_override = None
    if replay:
        jobs = [{"name": "replay", "run": "^TestReplay$", "kind": "plain", "shards": 1,
                 "env": {"VERIF_REPLAY": replay}, "race": bool(spec.get("replay_race"))}]
        try:
            with open(replay) as f:
                rf = json.load(f)
        except (OSError, ValueError):
            rf = {}
        for k, v in (rf.get("env") or {}).items():
            if k.startswith("VERIF_"):
                jobs[0]["env"][k] = str(v)
        if rf.get("sub") == "race":
            # a data race is replayed by re-running the race job that reported it, with its seed
            want = (rf.get("case") or {}).get("job", "").rsplit("-", 1)[0]
            jobs = [dict(j, shards=1) for j in spec["thorough" if tier == "thorough" else "quick"] if j.get("race") and (j["name"] == want or not want)]
            seed_override = (rf.get("case") or {}).get("seed")
    else:
        jobs = [dict(j) for j in spec[tier]]
        if tier == "quick":
            # the job table holds base counts; the quick tier runs them scaled (about 15-25 s per property on 16 cores)
            try:
                scale = float(os.environ.get("VERIF_QUICK_SCALE", "4"))
            except ValueError:
                scale = 4.0
            for j in jobs:
                if j.get("kind", "rapid") == "rapid" and not j.get("noscale"):
                    j["checks"] = max(1, int(j["checks"] * scale))
        if tier == "thorough":
            try:
                tscale = float(os.environ.get("VERIF_THOROUGH_SCALE", "3"))
            except ValueError:
                tscale = 3.0
            for j in jobs:
                if j.get("kind", "rapid") == "rapid" and not j.get("noscale"):
                    j["checks"] = max(1, int(j["checks"] * tscale))
        jobs.append({"name": "known", "run": "^TestKnown$", "kind": "plain", "shards": 1})
    need_plain = any(not j.get("race") for j in jobs if j.get("kind") != "fuzz")
    need_race = any(j.get("race") for j in jobs if j.get("kind") != "fuzz")
    bin_plain = os.path.join(scratch, pkg + ".test")
    bin_race = os.path.join(scratch, pkg + ".race.test")
    with cf.ThreadPoolExecutor(2) as ex:
        futs = []
        if need_plain:
            futs.append(ex.submit(build, pkg, bin_plain, False, scratch))
        if need_race:
            futs.append(ex.submit(build, pkg, bin_race, True, scratch))
        if not all(f.result() for f in futs):
            print("INFRA property=%s build failed" % pid)
            return 2
    os.chmod(bin_plain, 0o755) if need_plain else None
    os.chmod(bin_race, 0o755) if need_race else None

    results = []
    fuzz_results = []
    with cf.ThreadPoolExecutor(max(1, NCPU - 1)) as ex:
        futs = []
        for ji, job in enumerate(jobs):
            if job.get("kind") == "fuzz":
                continue
            n = job.get("shards", 1)
            for sh in range(n):
                seed = seed_for(verif_seed, prop_index, ji, sh)
                if seed_override:
                    seed = int(seed_override)
                futs.append(ex.submit(run_job, bin_race if job.get("race") else bin_plain, pkgdir, job, sh, n, seed,
                                      tier, scratch, None))
        for f in futs:
            results.append(f.result())
    # fuzz targets use all cores: one at a time, after the sharded jobs
    for job in jobs:
        if job.get("kind") == "fuzz":
            fuzz_results.append(run_fuzz(pkg, job, tier, scratch, verif_seed))

    # ---- merge
    evaluations = 0
    labels, excluded, samples = {}, {}, {}
    hashes = set()
    failures = []
    known = {}
    notes = []
    exhaustive = {}
    infra = []
    passed = {}
    for r in results:
        d = r["data"]
        if r["timed_out"]:
            infra.append("job %s exceeded its time budget (%ds): inconclusive" % (r["tag"], r["job"].get("timeout", 0)))
        if d is None:
            infra.append("job %s produced no result file (rc=%s); output tail:\n%s" % (r["tag"], r["rc"], r["out"][-3000:]))
            continue
        evaluations += d.get("evaluations", 0)
        for k, v in (d.get("labels") or {}).items():
            labels[k] = labels.get(k, 0) + v
        for k, v in (d.get("excluded") or {}).items():
            excluded[k] = excluded.get(k, 0) + v
        for k, v in (d.get("samples") or {}).items():
            samples.setdefault(k, [])
            for s in v:
                if len(samples[k]) < 2:
                    samples[k].append(s)
        hashes |= decode_hashes(d.get("nontrivial_b64"))
        for fl in d.get("failures") or []:
            fl["job"] = r["tag"]
            fl["seed"] = r.get("seed")
            # process-level conditions of the job that found it (dropped privileges, umask): the replay needs them
            cond = dict(r["job"].get("env") or {})
            if r["job"].get("uid"):
                cond["VERIF_DROP_UID"] = str(r["job"]["uid"])
            cond.pop("VERIF_REPLAY", None)
            if cond:
                fl["env"] = cond
            failures.append(fl)
        for ks in d.get("known") or []:
            known[ks["key"]] = ks
        notes += d.get("notes") or []
        for k, v in (d.get("exhaustive") or {}).items():
            exhaustive[k] = exhaustive.get(k, True) and v
        for k, v in (d.get("rapid_passed") or {}).items():
            passed.setdefault(k, []).append(v)
        if r["job"].get("kind", "rapid") == "rapid" and not (d.get("failures")):
            for name, n in (d.get("rapid_passed") or {}).items():
                if n < r["job"]["checks"]:
                    infra.append("job %s: rapid ran %d of %d requested cases for %s (deadline?): inconclusive" %
                                 (r["tag"], n, r["job"]["checks"], name))
        if r["rc"] != 0 and not d.get("failures"):
            infra.append("job %s exited %s without a recorded failure; output tail:\n%s" % (r["tag"], r["rc"], r["out"][-3000:]))
        for rep in r.get("race_reports") or []:
            handle_race(pid, rep, failures, infra, r)
    fuzz_execs = 0
    for fr in fuzz_results:
        fuzz_execs += fr["execs"]
        labels["fuzz-execs:" + fr["job"]["target"]] = fr["execs"]
        try:
            with open(os.path.join(scratch, fr["tag"] + ".json")) as f:
                pass
        except OSError:
            pass
        if fr["fails"]:
            fr["fails"].sort(key=lambda x: len(json.dumps(x.get("case"))))
            fl = fr["fails"][0]
            fl["origin"] = "fuzz"
            fl["job"] = fr["tag"]
            failures.append(fl)
        elif fr["rc"] != 0:
            if fr["timed_out"]:
                infra.append("fuzz target %s exceeded its time budget: inconclusive" % fr["job"]["target"])
            else:
                infra.append("fuzz target %s exited %s without a recorded failing case; output tail:\n%s" %
                             (fr["job"]["target"], fr["rc"], fr["out"][-3000:]))
    evaluations += fuzz_execs

    # ---- verdict
    violations = []
    known_lines = {}
    for fl in failures:
        if fl.get("known"):
            known_lines.setdefault(fl["known"], fl)
        else:
            violations.append(fl)
    out_lines = []
    for key, ks in sorted(known.items()):
        if ks["status"] == "known" and ks["fails"]:
            out_lines.append("KNOWN-FINDING: property=%s key=%s %s" % (pid, key, ks["what"]))
    for key, fl in sorted(known_lines.items()):
        if not (key in known and known[key]["fails"]):
            out_lines.append("KNOWN-FINDING: property=%s key=%s (generated case in the listed class) %s" %
                             (pid, key, fl["message"].splitlines()[0][:200]))
    seen_paths = set()
    per_sub = {}
    for fl in violations:
        per_sub[fl["sub"]] = per_sub.get(fl["sub"], 0) + 1
        if per_sub[fl["sub"]] > 2:
            continue  # at most two replay files / VIOLATION lines per sub-check and run
        if replay:
            path = replay
        else:
            path = write_replay(pid, fl)
        if path in seen_paths:
            continue
        seen_paths.add(path)
        log("violation in %s (%s): %s" % (fl.get("job"), fl["sub"], fl["message"][:2000]))
        out_lines.append("VIOLATION property=%s replay=%s" % (pid, path))

    # ---- evidence
    wall = time.time() - t_start
    if not replay:
        sample_list = []
        for k in sorted(samples):
            for s in samples[k]:
                if len(sample_list) < 16:
                    sample_list.append({"label": k, "case": s})
        if not sample_list:
            sample_list = [{"label": "none", "case": None}]
        evd = {
            "property_id": pid,
            "tier": tier,
            "seed": verif_seed,
            "level": spec["level"],
            "coverage": {
                "evaluations": int(evaluations),
                "distinct_nontrivial": len(hashes),
                "rule": spec["rule"],
                "samples": sample_list,
                "exhaustive": bool(exhaustive) and all(exhaustive.values()),
                "exhaustive_parts": exhaustive,
                "labels": dict(sorted(labels.items())),
                "excluded_known": excluded,
                "rapid_cases_passed": {k: sum(v) for k, v in passed.items()},
                "fuzz_execs": fuzz_execs,
                "jobs": [{"job": r["tag"], "rc": r["rc"], "wall_s": round(r["wall"], 2)} for r in results] +
                        [{"job": fr["tag"], "rc": fr["rc"], "wall_s": round(fr["wall"], 2), "execs": fr["execs"]} for fr in fuzz_results],
                "known_findings": [{"key": k, "status": v["status"], "still_fails": v["fails"]} for k, v in sorted(known.items())],
                "notes": sorted(set(notes)),
                "infrastructure_problems": infra,
            },
            "assumptions": spec.get("assumptions", []),
            "wall_s": round(wall, 2),
            "violations": len(seen_paths),
        }
        os.makedirs(os.path.join(VERIF, "evidence"), exist_ok=True)
        tmp = os.path.join(VERIF, "evidence", ".%s.json.tmp" % pid)
        with open(tmp, "w") as f:
            json.dump(evd, f, indent=1)
            f.write("\n")
        os.replace(tmp, os.path.join(VERIF, "evidence", "%s.json" % pid))

    for l in out_lines:
        print(l)
    if seen_paths:
        print("RESULT property=%s tier=%s violations=%d evaluations=%d wall=%.1fs" % (pid, tier, len(seen_paths), evaluations, wall))
        return 1
    if infra:
        for m in infra:
            log("INFRA:", m)
        print("INFRA property=%s inconclusive: %d infrastructure problem(s), see stderr" % (pid, len(infra)))
        return 2
    print("OK property=%s tier=%s evaluations=%d distinct_nontrivial=%d wall=%.1fs" % (pid, tier, evaluations, len(hashes), wall))
    return 0


RACE_SPLIT = re.compile(r"={18}\n")


def handle_race(pid, report, failures, infra, r):
    """A data race counts only when a go-slug frame takes part in it."""
    for block in RACE_SPLIT.split(report):
        if "WARNING: DATA RACE" not in block:
            continue
        if "github.com/hashicorp/go-slug" in block:
            failures.append({"sub": "race", "case": {"race_report": block[:6000], "job": r["tag"], "seed": r.get("seed")},
                             "message": "data race involving go-slug code:\n" + block[:3000], "origin": "race",
                             "known": race_known(block)})
        else:
            infra.append("data race confined to harness code in %s:\n%s" % (r["tag"], block[:2000]))


def race_known(block):
    try:
        with open(os.path.join(VERIF, "known_findings.txt")) as f:
            for line in f:
                line = line.strip()
                if not line.startswith("known:") or " | {" not in line:
                    continue
                k = json.loads("{" + line.split(" | {", 1)[1])
                if k.get("race_frame") and k["race_frame"] in block:
                    return k["key"]
    except (OSError, ValueError):
        pass
    return ""


if __name__ == "__main__":
    sys.exit(main())
